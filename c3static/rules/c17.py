"""C17 -- annotation databases return exactly the matching records.

R17.1 the interval predicate assembled by `_matching_conditions` equals half-open
      overlap / containment on ALL order types of (start, stop, qstart, qstop)
      (exhaustive), and the assembled WHERE text is well formed for every kind of
      condition value.
R17.2 one WHERE builder; the window flags reach it unchanged.
R17.3 denormalised extremes (`start`, `stop`) are written whenever `spans` is.
R17.4 coordinate convention: file number -> stored value offsets (-1, 0).

Added in build round 2 (see DESIGN.md section 3, round-2 table):
R17.5 the counter of made-up record names is threaded through every call of merged_gff_records: the updated counter it returns is stored where the next ...

Added later in build rounds 2-3 (see DESIGN.md section 3, round-2/3 table):
R17.10 union() returns a NEW db and leaves both operands alone: the result is constructed empty (cls()) and filled with update(); it is never constructed on ...
R17.6 each identifier is stored once however the file is cut into blocks: in _db_from_gff the rows of an identifier already stored by an earlier block are ...
R17.7 every table is queried with the caller's conditions: inside a loop over the db's tables, the keyword mapping that is passed on (`**mapping`) is not ...
R17.8 GFF record identity: the patterns that extract the ID and Parent of a row match the key only where an attribute begins (start of the column or after ...
R17.9 transaction discipline of the annotation dbs: every data-changing statement sent through the raw connection (self.db.execute / executemany of INSERT ...
R17.11 from_dict drops the serialised `source` before building the db that receives the records.
R17.12 the GenBank loader iterates over every parsed record.
R17.13 the per-table loop of the aggregate methods has no return/break: every table is visited.
R17.14 an attributes condition means 'contains the fragment' for counts and queries alike (wrapped before every SQL builder call); R17.3 also sweeps for unaudited row builders.
"""

from __future__ import annotations

import ast
import re

from ..index import AnalysisError, call_name, norm, params_of, walk_no_nested
from ..literals import NotConstant, all_strings, propagate
from ..report import key
from ..tables import weak_orderings

DB = "core/annotation_db.py"

# ---------------------------------------------------------------- SQL condition parser
_TOK = re.compile(r"\s*(\(|\)|<=|>=|<|>|=|\?|[A-Za-z_][A-Za-z_0-9]*|\d+|,)")


class SqlSyntax(Exception):
    pass


def parse_condition(text):
    """tiny recursive-descent parser for `a <op> b`, AND, OR, parentheses, `x = ?`,
    `x IN (?,?)`, `x LIKE ?`; returns an AST of tuples"""
    toks = []
    pos = 0
    text = text.strip()
    while pos < len(text):
        m = _TOK.match(text, pos)
        if not m:
            raise SqlSyntax(f"bad token at {text[pos:pos + 12]!r}")
        toks.append(m.group(1))
        pos = m.end()
    i = [0]

    def peek():
        return toks[i[0]] if i[0] < len(toks) else None

    def take(exp=None):
        t = peek()
        if t is None or (exp is not None and t.upper() != exp):
            raise SqlSyntax(f"expected {exp or 'token'} got {t!r}")
        i[0] += 1
        return t

    def p_or():
        left = p_and()
        while peek() is not None and peek().upper() == "OR":
            take()
            left = ("or", left, p_and())
        return left

    def p_and():
        left = p_atom()
        while peek() is not None and peek().upper() == "AND":
            take()
            left = ("and", left, p_atom())
        return left

    def p_atom():
        if peek() == "(":
            take("(")
            e = p_or()
            take(")")
            return e
        a = take()
        if a.upper() in ("AND", "OR", ")", None):
            raise SqlSyntax(f"operand expected, got {a!r}")
        op = take()
        if op.upper() == "IN":
            take("(")
            while peek() != ")":
                take()
            take(")")
            return ("opaque", a)
        if op.upper() == "LIKE":
            take()
            return ("opaque", a)
        if op not in ("<", ">", "<=", ">=", "="):
            raise SqlSyntax(f"operator expected, got {op!r}")
        b = take()
        if b == "?":
            return ("opaque", a)
        return ("cmp", op, a, b)

    e = p_or()
    if peek() is not None:
        raise SqlSyntax(f"trailing {peek()!r}")
    return e


def eval_condition(e, env):
    k = e[0]
    if k == "or":
        return eval_condition(e[1], env) or eval_condition(e[2], env)
    if k == "and":
        return eval_condition(e[1], env) and eval_condition(e[2], env)
    if k == "opaque":
        return True
    _, op, a, b = e
    x, y = env[a], env[b]
    return {"<": x < y, ">": x > y, "<=": x <= y, ">=": x >= y, "=": x == y}[op]


# ---------------------------------------------------------------- R17.1
SPECS = {
    # name: (args, reference predicate over ranks, constraint over ranks, description)
    "partial": (
        dict(start="QS", stop="QE", allow_partial=True),
        lambda r: r["start"] < r["QE"] and r["stop"] > r["QS"],
        lambda r: r["start"] < r["stop"] and r["QS"] < r["QE"],
        "half-open overlap: start < qstop and stop > qstart",
    ),
    "within": (
        dict(start="QS", stop="QE", allow_partial=False),
        lambda r: r["start"] >= r["QS"] and r["stop"] <= r["QE"],
        lambda r: r["start"] < r["stop"] and r["QS"] < r["QE"],
        "containment: start >= qstart and stop <= qstop",
    ),
    "only-start": (
        dict(start="QS", stop=None, allow_partial=True),
        lambda r: r["start"] <= r["QS"] < r["stop"],
        lambda r: r["start"] < r["stop"],
        "feature contains the position: start <= q < stop",
    ),
    "only-stop": (
        dict(start=None, stop="QE", allow_partial=True),
        lambda r: r["start"] <= r["QE"] < r["stop"],
        lambda r: r["start"] < r["stop"],
        "feature contains the position: start <= q < stop",
    ),
}


def r17_1(chk):
    chk.rule("R17.1", "the WHERE text assembled by _matching_conditions (constant propagation through the function) is a well-formed condition and, on every weak ordering of the integers involved, equals the interval predicate it stands for")
    m = chk.repo.module(DB)
    fn = m.func("_matching_conditions")
    n_orders = 0
    for name, (args, ref, constraint, desc) in SPECS.items():
        for other_name, other in (("no other condition", {}), ("None-valued condition", {"seqid": None}), ("string condition", {"seqid": "s1"}), ("sequence condition", {"biotype": ("gene", "cds")})):
            conditions = dict(other)
            for k in ("start", "stop"):
                if args[k] is not None:
                    conditions[k] = args[k]
            k_inst = key(m, "_matching_conditions", f"{name}; {other_name}")
            try:
                res = propagate(fn, {"conditions": conditions, "allow_partial": args["allow_partial"]}, m)
                sql, vals = res
            except (NotConstant, TypeError, ValueError) as e:
                chk.unresolved("R17.1", k_inst, m.loc(fn), f"cannot propagate constants through the function: {e}")
                continue
            # exact-value conditions use '=', only values carrying a wildcard use LIKE
            if other_name == "string condition":
                exact = re.search(r"\bseqid\s*=\s*\?", sql) is not None
                if not exact:
                    chk.violation("R17.1", key(m, "_matching_conditions", f"{name}; exact-value operator"), m.loc(fn), f"a plain string value is matched with `{sql.split(' AND ')[0]}` instead of `seqid = ?`: LIKE is case-insensitive and treats '_' as a wildcard, so records with other identifiers are returned too")
                    continue
            try:
                tree = parse_condition(sql)
            except SqlSyntax as e:
                chk.violation("R17.1", k_inst, m.loc(fn), f"assembled WHERE text {sql!r} is not a well-formed condition ({e}): the query raises instead of selecting")
                continue
            names = ["start", "stop"] + [v for v in (args["start"], args["stop"]) if v]
            bad = []
            count = 0
            for ranks in weak_orderings(names):
                if not constraint(ranks):
                    continue
                count += 1
                got = eval_condition(tree, ranks)
                if got != ref(ranks):
                    bad.append({k: v for k, v in ranks.items()})
            n_orders += count
            if bad:
                chk.violation("R17.1", k_inst, m.loc(fn), f"{sql!r} differs from {desc} on {len(bad)} of {count} order types, e.g. ranks {bad[0]}")
            else:
                chk.ok("R17.1", k_inst, m.loc(fn), f"{sql!r} == {desc} on all {count} order types")
    chk.extra["order_types_evaluated"] = n_orders
    chk.exhaustive = True
    chk.floor("R17.1", 12, "4 query kinds x 4 kinds of accompanying condition")


# ---------------------------------------------------------------- R17.2
def r17_2(chk):
    chk.rule("R17.2", "every SQL statement builder gets its WHERE from _matching_conditions with keywords of its signature, forwarding allow_partial unchanged; the query methods forward allow_partial and the window to the builder")
    m = chk.repo.module(DB)
    mc = m.func("_matching_conditions")
    mc_params = set(params_of(mc))
    for q in ("_select_records_sql", "_count_records_sql", "_del_records_sql"):
        fn = m.func(q)
        calls = [c for c in walk_no_nested(fn) if isinstance(c, ast.Call) and call_name(c) == "_matching_conditions"]
        k = key(m, q, "WHERE from _matching_conditions")
        if not calls:
            chk.violation("R17.2", k, m.loc(fn), "builds its own WHERE clause instead of calling _matching_conditions")
            continue
        c = calls[0]
        kws = {kw.arg: norm(kw.value) for kw in c.keywords if kw.arg}
        extra = set(kws) - mc_params
        used = _is_called_anywhere(chk, q)
        if extra:
            msg = f"passes {sorted(extra)} which _matching_conditions does not accept (TypeError when called)"
            if used:
                chk.violation("R17.2", k, m.loc(c), msg)
            else:
                chk.advisory("R17.2", k, m.loc(c), msg + "; the function has no caller in the package")
            continue
        good = kws.get("allow_partial") == "allow_partial" and kws.get("conditions") == "conditions"
        chk.decide(good, "R17.2", k, m.loc(c), "conditions and allow_partial forwarded unchanged", f"keywords {kws}: allow_partial/conditions not forwarded unchanged")
    # _get_records_matching: allow_partial popped from kwargs and forwarded; conditions=kwargs
    ci = m.cls("SqliteAnnotationDbMixin")
    fn = m.func("SqliteAnnotationDbMixin._get_records_matching")
    calls = [c for c in walk_no_nested(fn) if isinstance(c, ast.Call) and call_name(c) == "_select_records_sql"]
    if not calls:
        raise AnalysisError("_get_records_matching no longer calls _select_records_sql")
    kws = {kw.arg: norm(kw.value) for kw in calls[0].keywords if kw.arg}
    pops = {}
    for st in walk_no_nested(fn):
        if isinstance(st, ast.Assign) and isinstance(st.value, ast.Call) and norm(st.value.func) == "kwargs.pop" and st.value.args:
            pops[norm(st.targets[0])] = st.value.args[0].value if isinstance(st.value.args[0], ast.Constant) else None
    good = kws.get("conditions") == "kwargs" and kws.get("allow_partial") in pops and pops[kws["allow_partial"]] == "allow_partial"
    chk.decide(good, "R17.2", key(m, "SqliteAnnotationDbMixin._get_records_matching", "forwards window"), m.loc(calls[0]), "conditions=kwargs (start/stop inside), allow_partial popped and forwarded", f"call keywords {kws}, pops {pops}")
    # the public query methods collect their parameters with the locals() idiom: every declared filter must stay a parameter
    for q in ("get_records_matching", "get_features_matching", "subset"):
        fn = m.func(f"SqliteAnnotationDbMixin.{q}")
        ps = set(params_of(fn))
        need = {"biotype", "seqid", "name", "start", "stop", "strand", "attributes", "allow_partial"}
        uses_locals = any(isinstance(c, ast.Call) and call_name(c) == "locals" for c in walk_no_nested(fn))
        forwards = any(isinstance(c, ast.Call) and isinstance(c.func, ast.Attribute) and c.func.attr == "_get_records_matching" and any(kw.arg is None for kw in c.keywords) for c in walk_no_nested(fn))
        chk.decide(need <= ps and uses_locals and forwards, "R17.2", key(m, f"SqliteAnnotationDbMixin.{q}", "filters forwarded"), m.loc(fn), "all filters are parameters, gathered by locals() and forwarded as **kwargs", f"missing filters {sorted(need - ps)} or locals()/**kwargs forwarding idiom gone")
        # values excluded from the query: only None (and self / non-filter names)
        for comp in walk_no_nested(fn):
            if isinstance(comp, ast.DictComp) and any(isinstance(c, ast.Call) and call_name(c) == "locals" for c in ast.walk(comp)):
                conds = [norm(i) for g in comp.generators for i in g.ifs]
                txt = " and ".join(conds)
                names_excluded = set(re.findall(r"'([a-z_]+)'", txt))
                chk.decide(not (names_excluded & need), "R17.2", key(m, f"SqliteAnnotationDbMixin.{q}", "locals filter"), m.loc(comp), f"excludes only {sorted(names_excluded)}", f"query filter(s) {sorted(names_excluded & need)} are excluded from the query")
    chk.floor("R17.2", 8, "3 builders, 1 dispatcher, 3 query methods + their locals() filters")


def _is_called_anywhere(chk, fname):
    for mod in chk.repo.all_modules():
        if fname not in mod.source:
            continue
        for n in ast.walk(mod.tree):
            if isinstance(n, ast.Call) and (call_name(n) or "").split(".")[-1] == fname:
                return True
    return False


# ---------------------------------------------------------------- R17.3
ROW_BUILDERS = [
    "SqliteAnnotationDbMixin.add_feature",
    "GffAnnotationDb.add_records",
    "GenbankAnnotationDb.add_records",
    "BasicAnnotationDb.add_records",
]


ROW_PASS_THROUGH = {
    "SqliteAnnotationDbMixin._update_db_from_rich_dict": "re-inserts rows produced by to_rich_dict, which emits every non-null column of the stored row (start/stop included)",
}


def _target_name(t):
    """'start' for `start = ...`, `record["start"] = ...`, `store["start"] = ...`"""
    if isinstance(t, ast.Name):
        return t.id, None
    if isinstance(t, ast.Subscript) and isinstance(t.slice, ast.Constant) and isinstance(t.slice.value, str):
        return t.slice.value, norm(t.value)
    return None, None


def r17_3(chk):
    chk.rule("R17.3", "whenever `spans` is stored, `start`/`stop` are stored as min/max of the same spans: in every row builder and in every SQL UPDATE")
    m = chk.repo.module(DB)
    # coverage: every function of the module that stores `spans` and inserts rows is a row builder
    found = set()
    for fnode, q in m.qual.items():
        if not isinstance(fnode, (ast.FunctionDef, ast.AsyncFunctionDef)):
            continue
        stores = any(isinstance(st, ast.Assign) and len(st.targets) == 1 and _target_name(st.targets[0])[0] == "spans" for st in walk_no_nested(fnode))
        inserts = any(isinstance(c, ast.Call) and (call_name(c) or "").split(".")[-1] == "_add_record_sql" for c in walk_no_nested(fnode)) or any(re.match(r"\s*INSERT\s+INTO", s_, re.I) for _, s_ in all_strings(fnode))
        if stores and inserts:
            found.add(q)
    # pass-through of rows that were read from a table: the serialised row carries the stored extremes
    for q, why in ROW_PASS_THROUGH.items():
        found.discard(q)
        src = m.func("SqliteAnnotationDbMixin.to_rich_dict")
        calls = [c for c in walk_no_nested(src) if isinstance(c, ast.Call) and (call_name(c) or "").endswith("_get_records_matching")]
        whole = bool(calls) and all(not any(kw.arg in ("columns", None) for kw in c.keywords) for c in calls)
        comps = [c for c in walk_no_nested(src) if isinstance(c, ast.DictComp)]
        filt = all(norm(i) == "v is not None" for c in comps for g in c.generators for i in g.ifs)
        chk.decide(whole and filt, "R17.3", key(m, q, "re-inserted rows were serialised whole"), m.loc(src), why, "to_rich_dict no longer serialises whole rows (column selection or a filter other than `v is not None`): the rows re-inserted by _update_db_from_rich_dict may lack start/stop")
    for q in sorted(found - set(ROW_BUILDERS)):
        chk.violation("R17.3", key(m, q, "row builder not in the audited table"), m.loc(m.func(q)), f"{q} stores `spans` and inserts rows but is not one of the audited row builders {ROW_BUILDERS}: its records may reach the table without start/stop")
    for q in ROW_BUILDERS:
        fn = m.func(q)
        assigns = {}
        for st in walk_no_nested(fn):
            if isinstance(st, ast.Assign) and len(st.targets) == 1:
                n, holder = _target_name(st.targets[0])
                if n in ("start", "stop", "spans"):
                    assigns.setdefault(n, []).append((st, holder))
        k = key(m, q, "start/stop from spans")
        if "spans" not in assigns:
            raise AnalysisError(f"{q}: no assignment of spans found (anchor moved)")
        bad = []
        for n, red in (("start", "min"), ("stop", "max")):
            if n not in assigns:
                bad.append(f"{n} is never assigned although spans is")
                continue
            st, holder = assigns[n][-1]
            calls = [c for c in ast.walk(st.value) if isinstance(c, ast.Call) and isinstance(c.func, ast.Attribute) and c.func.attr in ("min", "max")]
            if not calls or calls[0].func.attr != red:
                bad.append(f"{n} = {norm(st.value)} is not spans.{red}()")
                continue
            src = norm(calls[0].func.value)
            # the reduced array must be the stored spans (the local `spans` or holder["spans"])
            spans_exprs = {"spans"} | {f"{h}['spans']" for _, h in assigns["spans"] if h}
            if src not in spans_exprs:
                bad.append(f"{n} is computed from {src}, not from the stored spans")
        if bad:
            chk.violation("R17.3", k, m.loc(fn), "; ".join(bad))
        else:
            chk.ok("R17.3", k, m.loc(fn), "start=int(spans.min()), stop=int(spans.max())")
    # SQL UPDATEs
    n_upd = 0
    for mod_rel in (DB,):
        mod = chk.repo.module(mod_rel)
        for node, s in all_strings(mod.tree):
            mm = re.match(r"\s*UPDATE\s+(\S+)\s+SET\s+(.*?)(\s+WHERE\s+.*)?;?\s*$", s, re.I | re.S)
            if not mm:
                continue
            cols = [c.split("=")[0].strip() for c in mm.group(2).split(",")]
            n_upd += 1
            q = _enclosing(mod, node)
            k = key(mod, q, f"UPDATE {mm.group(1)} SET {','.join(cols)}")
            if "spans" in cols:
                chk.decide({"start", "stop"} <= set(cols), "R17.3", k, mod.loc(node), "spans, start and stop updated together", f"UPDATE writes spans but not {sorted({'start', 'stop'} - set(cols))}: window queries keep using the stale extremes")
            else:
                chk.ok("R17.3", k, mod.loc(node), "does not write spans", nontrivial=False)
    chk.floor("R17.3", 5, "4 row builders + at least one UPDATE statement")


def _enclosing(mod, node):
    best = "<module>"
    for fnode, q in mod.qual.items():
        if isinstance(fnode, (ast.FunctionDef, ast.AsyncFunctionDef)) and fnode.lineno <= node.lineno <= (fnode.end_lineno or fnode.lineno):
            if best == "<module>" or len(q) > len(best):
                best = q
    return best


# ---------------------------------------------------------------- R17.4
def _offset(expr, env, props):
    """(symbol, integer offset) of an integer expression in the constant-offset
    domain, or None"""
    if isinstance(expr, ast.BinOp) and isinstance(expr.op, (ast.Add, ast.Sub)) and isinstance(expr.right, ast.Constant) and isinstance(expr.right.value, int):
        base = _offset(expr.left, env, props)
        if base is None:
            return None
        k = expr.right.value if isinstance(expr.op, ast.Add) else -expr.right.value
        return base[0], base[1] + k
    if isinstance(expr, ast.Call) and call_name(expr) in ("int", "abs") and len(expr.args) == 1:
        return _offset(expr.args[0], env, props)
    if isinstance(expr, ast.Name):
        return env.get(expr.id, (expr.id, 0))
    if isinstance(expr, ast.Attribute) and expr.attr in props:
        return props[expr.attr]
    if isinstance(expr, ast.Attribute):
        return (norm(expr), 0)
    return None


def r17_4(chk):
    chk.rule("R17.4", "net offset from the number in the file to the stored value is (-1, 0): 1-based closed -> 0-based half-open, computed in a constant-offset domain along def-use chains")
    # GFF
    m = chk.repo.module("parse/gff.py")
    fn = m.func("_gff_parser")
    loop = [n for n in walk_no_nested(fn) if isinstance(n, ast.For)]
    unpack = None
    for n in walk_no_nested(fn):
        if isinstance(n, ast.Assign) and isinstance(n.targets[0], ast.Tuple) and len(n.targets[0].elts) == 9 and norm(n.value) == "cols":
            unpack = n
    if unpack is None or not loop:
        raise AnalysisError("gff parser: 9-column unpack of `cols` not found")
    names = [e.id for e in unpack.targets[0].elts]
    a, b = names[3], names[4]
    env = {a: ("col4", 0), b: ("col5", 0)}
    # main path: statements of the loop body after the unpack, outside repair branches
    for st in loop[-1].body:
        if st.lineno <= unpack.lineno:
            continue
        if isinstance(st, ast.Assign):
            tg = st.targets[0]
            if isinstance(tg, ast.Tuple) and isinstance(st.value, ast.Tuple) and len(tg.elts) == len(st.value.elts):
                new = {}
                for t, v in zip(tg.elts, st.value.elts):
                    if isinstance(t, ast.Name) and t.id in env:
                        new[t.id] = _offset(v, env, {})
                env.update({k_: v for k_, v in new.items() if v is not None})
            elif isinstance(tg, ast.Name) and tg.id in env:
                o = _offset(st.value, env, {})
                if o is not None:
                    env[tg.id] = o
    ycalls = [c for n in walk_no_nested(fn) if isinstance(n, (ast.Yield,)) and isinstance(n.value, ast.Call) for c in [n.value]]
    if not ycalls:
        raise AnalysisError("gff parser: no `yield make_record(...)`")
    kws = {kw.arg: kw.value for kw in ycalls[0].keywords}
    got = {}
    for kwname in ("start", "stop"):
        if kwname in kws:
            got[kwname] = _offset(kws[kwname], env, {})
    chk.decide(got.get("start") == ("col4", -1), "R17.4", key(m, "_gff_parser", "start offset"), m.loc(ycalls[0]), "record start = column 4 - 1", f"record start is {got.get('start')}, expected column 4 with offset -1")
    chk.decide(got.get("stop") == ("col5", 0), "R17.4", key(m, "_gff_parser", "stop offset"), m.loc(ycalls[0]), "record stop = column 5", f"record stop is {got.get('stop')}, expected column 5 with offset 0")

    # GenBank
    g = chk.repo.module("parse/genbank.py")
    loc = g.cls("Location")
    props = {}
    for pname in ("start", "stop"):
        pr = loc.properties.get(pname, {}).get("get")
        if pr is None:
            raise AnalysisError(f"genbank Location.{pname} property not found")
        rets = [r for r in walk_no_nested(pr) if isinstance(r, ast.Return) and r.value is not None]
        offs = set()
        for r in rets:
            # delegation `self._data[i].<same property>` has the same offset by induction
            if isinstance(r.value, ast.Attribute) and r.value.attr == pname:
                continue
            offs.add(_offset(r.value, {}, {}))
        k = key(g, f"Location.{pname}", "offset")
        if len(offs) == 1 and None not in offs:
            sym, off = offs.pop()
            props[pname] = ("pos", off)
            chk.decide(sym == "self._data" and off == -1, "R17.4", k, g.loc(pr), f"{pname} = int(self._data) - 1", f"{pname} is {sym}{off:+d}; expected the file's number - 1")
        else:
            chk.violation("R17.4", k, g.loc(pr), f"cannot compute a single offset for {pname}: {offs}")
    gc_fn = g.func("LocationList.get_coordinates")
    tuples = [t for st in gc_fn.body for t in ast.walk(st) if isinstance(t, ast.Tuple) and len(t.elts) == 2]
    if not tuples or not props:
        raise AnalysisError("LocationList.get_coordinates: (start, stop) tuple not found")
    s_off = _offset(tuples[0].elts[0], {}, props)
    e_off = _offset(tuples[0].elts[1], {}, props)
    chk.decide(s_off == ("pos", -1) and e_off == ("pos", 0), "R17.4", key(g, "LocationList.get_coordinates", "offsets"), g.loc(tuples[0]), "(file start - 1, file stop)", f"coordinates are (pos{s_off[1] if s_off else '?':+}, pos{e_off[1] if e_off else '?':+}), expected (-1, +0)")
    # the db stores what get_coordinates returns, unshifted
    fn = chk.repo.module(DB).func("GenbankAnnotationDb.add_records")
    srcs = [st for st in walk_no_nested(fn) if isinstance(st, ast.Assign) and _target_name(st.targets[0])[0] == "spans"]
    good = bool(srcs) and any(isinstance(c, ast.Call) and isinstance(c.func, ast.Attribute) and c.func.attr == "get_coordinates" for c in ast.walk(srcs[0].value)) and not any(isinstance(b_, ast.BinOp) for b_ in ast.walk(srcs[0].value))
    chk.decide(good, "R17.4", key(DB, "GenbankAnnotationDb.add_records", "spans unshifted"), chk.repo.module(DB).loc(srcs[0] if srcs else fn), "spans = array(location.get_coordinates())", "stored spans are not location.get_coordinates() unshifted")
    chk.floor("R17.4", 6, "2 gff offsets, 2 genbank properties, get_coordinates, db storage")


def r17_5(chk):
    chk.rule("R17.5", "the counter of made-up record names is threaded through every call of merged_gff_records: the updated counter it returns is stored where the next call takes its counter from, and is not reset inside the block loop -- otherwise ID-less rows of later blocks reuse earlier names and their spans are merged into the wrong records")
    m = chk.repo.module(DB)
    n = 0
    for q, fn in m.all_functions():
        calls = [st for st in walk_no_nested(fn) if isinstance(st, ast.Assign) and isinstance(st.value, ast.Call) and call_name(st.value) == "merged_gff_records"]
        for st in calls:
            n += 1
            c = st.value
            arg = c.args[1] if len(c.args) > 1 else next((kw.value for kw in c.keywords if kw.arg == "num_fake_ids"), None)
            tg = st.targets[0]
            out = tg.elts[1] if isinstance(tg, ast.Tuple) and len(tg.elts) == 2 else None
            k = key(m, q, f"{norm(st)[:70]}")
            if arg is None or out is None:
                chk.violation("R17.5", k, m.loc(st), "the updated counter returned by merged_gff_records is discarded")
                continue
            same = norm(arg) == norm(out)
            # not reset inside an inner loop that contains the call
            reset_inside = False
            for lp in walk_no_nested(fn):
                if isinstance(lp, (ast.For, ast.While)) and any(st is x for b in lp.body for x in ast.walk(b)):
                    for b in lp.body:
                        for x in ast.walk(b):
                            if isinstance(x, ast.Assign) and x is not st and norm(x.targets[0]) == norm(arg) and isinstance(x.value, ast.Constant):
                                # a reset in the innermost loop around the call restarts the names per block; a reset in an
                                # outer loop (per file) restarts them while the set of seen identifiers lives on across that loop
                                inner = [l2 for l2 in ast.walk(lp) if isinstance(l2, (ast.For, ast.While)) and l2 is not lp and any(st is y for b2 in l2.body for y in ast.walk(b2))]
                                seen_outside = any(isinstance(a2, ast.Assign) and isinstance(a2.value, ast.Call) and call_name(a2.value) == "set" and a2.lineno < lp.lineno for a2 in walk_no_nested(fn))
                                if not inner or seen_outside:
                                    reset_inside = True
            chk.decide(same and not reset_inside, "R17.5", k, m.loc(st), f"counter `{norm(arg)}` fed back", f"the call takes its counter from `{norm(arg)}` but stores the updated one in `{norm(out)}`" + (" (and resets it inside the block loop)" if reset_inside else "") + ": rows without an ID in a later block are given names already used in an earlier one")
    chk.floor("R17.5", 2, "GffAnnotationDb.__init__ and _db_from_gff")


def r17_6(chk):
    chk.rule("R17.6", "each identifier is stored once however the file is cut into blocks: in _db_from_gff the rows of an identifier already stored by an earlier block are merged into the existing record (update_record_spans) AND taken out of the block (pop / del / a filtered dict) before the block is handed to add_records -- otherwise they become a second record holding part of the spans")
    from ..cfg import build

    m = chk.repo.module(DB)
    fn = m.func("_db_from_gff")
    g = build(fn)
    adds = g.nodes_containing(lambda x: isinstance(x, ast.Call) and isinstance(x.func, ast.Attribute) and x.func.attr == "add_records")
    upd = [c for c in walk_no_nested(fn) if isinstance(c, ast.Call) and isinstance(c.func, ast.Attribute) and c.func.attr == "update_record_spans"]
    if not adds or not upd:
        raise AnalysisError("_db_from_gff: add_records / update_record_spans calls not found")
    add_call = [c for e in __import__("c3static.cfg", fromlist=["own_exprs"]).own_exprs(adds[0]) for c in ast.walk(e) if isinstance(c, ast.Call) and isinstance(c.func, ast.Attribute) and c.func.attr == "add_records"][0]
    block = norm(add_call.args[0]) if add_call.args else None
    # the loop over the already-seen names
    loops = [lp for lp in walk_no_nested(fn) if isinstance(lp, ast.For) and any(u is x for b in lp.body for x in ast.walk(b) for u in upd)]
    removed = False
    for lp in loops:
        var = norm(lp.target)
        for x in ast.walk(lp):
            if isinstance(x, ast.Call) and isinstance(x.func, ast.Attribute) and x.func.attr == "pop" and norm(x.func.value) == block and x.args and norm(x.args[0]) == var:
                removed = True
            if isinstance(x, ast.Delete) and any(norm(t) == f"{block}[{var}]" for t in x.targets):
                removed = True
    # or: the block is rebuilt without the seen names before add_records
    for st in walk_no_nested(fn):
        if isinstance(st, ast.Assign) and norm(st.targets[0]) == block and isinstance(st.value, ast.DictComp) and any("not in" in norm(i) for gcomp in st.value.generators for i in gcomp.ifs):
            removed = True
    chk.decide(removed, "R17.6", key(m, "_db_from_gff", "rows merged into an existing record leave the block"), m.loc(add_call), f"`{block}.pop(name)` (or del / filter) for every identifier already stored", f"`{norm(add_call)}` still contains the rows of identifiers whose spans were just merged into their existing record: with the file cut into blocks (lines_per_block) such a feature is returned twice, the second copy denoting only part of its residues")
    chk.floor("R17.6", 1, "one loader")


def _loop_carried_kwargs_mutations(fn):
    """in-place mutations, inside a loop, of a mapping bound outside the loop that the loop body passes on as **mapping"""
    out = []
    for lp in ast.walk(fn):
        if not isinstance(lp, (ast.For, ast.While)):
            continue
        spread = {kw.value.id for c in ast.walk(lp) if isinstance(c, ast.Call) for kw in c.keywords if kw.arg is None and isinstance(kw.value, ast.Name)}
        rebound = {t.id for st in ast.walk(lp) if isinstance(st, ast.Assign) for t in st.targets if isinstance(t, ast.Name)}
        for x in ast.walk(lp):
            nm = None
            if isinstance(x, ast.Call) and isinstance(x.func, ast.Attribute) and x.func.attr in ("pop", "update", "setdefault", "clear", "popitem") and isinstance(x.func.value, ast.Name):
                nm = x.func.value.id
            elif isinstance(x, (ast.Assign, ast.Delete)):
                for t in x.targets:
                    if isinstance(t, ast.Subscript) and isinstance(t.value, ast.Name):
                        nm = t.value.id
            if nm and nm in spread and nm not in rebound:
                out.append((lp, x, nm))
    return out


def r17_7(chk):
    chk.rule("R17.7", "every table is queried with the caller's conditions: inside a loop over the db's tables, the keyword mapping that is passed on (`**mapping`) is not edited in place (pop / del / item store) unless it was bound afresh inside that loop -- an edit made for one table silently changes the query of the tables visited afterwards (on_alignment=False lost for the user table of a Gff/Genbank db)")
    m = chk.repo.module(DB)
    n = 0
    for q, fn in m.all_functions():
        hits = _loop_carried_kwargs_mutations(fn)
        if any(isinstance(c, ast.Call) and any(kw.arg is None for kw in c.keywords) for lp in ast.walk(fn) if isinstance(lp, (ast.For, ast.While)) for c in ast.walk(lp)):
            n += 1
            seen = set()
            for lp, x, nm in hits:
                if (nm, x.lineno) in seen:
                    continue
                seen.add((nm, x.lineno))
                chk.violation("R17.7", key(m, q, f"`{norm(x)[:50]}` inside the table loop"), m.loc(x), f"`{norm(x)[:70]}` edits `{nm}`, which was bound outside the loop and is passed as **{nm} to the query of every table: the tables visited after this iteration are queried without that condition")
            if not hits:
                chk.ok("R17.7", key(m, q, "query arguments are per-iteration"), m.loc(fn), "no in-place edit of a loop-carried keyword mapping")
    probe = ast.parse("def f(self, **kwargs):\n    for t in self.table_names:\n        if t != 'user':\n            kwargs.pop('on_alignment', None)\n        self._q(table_name=t, **kwargs)\n").body[0]
    if not _loop_carried_kwargs_mutations(probe):
        raise AnalysisError("R17.7 self-probe failed")
    chk.floor("R17.7", 2, "table loops that forward keyword mappings")


def r17_8(chk):
    chk.rule("R17.8", "GFF record identity: the patterns that extract the ID and Parent of a row match the key only where an attribute begins (start of the column or after ';') and with its exact case -- an unanchored or case-insensitive pattern also matches exon_id= / geneID= and merges unrelated rows into one record")
    import re._parser as rp  # noqa: F401

    m = chk.repo.module("parse/gff.py")
    fn = m.func("merged_gff_records")
    from ..literals import propagate

    comps = [st for st in walk_no_nested(fn) if isinstance(st, ast.Assign) and isinstance(st.value, ast.Call) and call_name(st.value) == "re.compile"]
    if len(comps) < 2:
        raise AnalysisError("merged_gff_records: the two re.compile calls were not found")
    templates = {norm(st.targets[0]): st.value.value for st in walk_no_nested(fn) if isinstance(st, ast.Assign) and isinstance(st.value, ast.Constant) and isinstance(st.value.value, str)}
    for st in comps:
        c = st.value
        a = c.args[0]
        pat = None
        if isinstance(a, ast.Constant):
            pat = a.value
        elif isinstance(a, ast.Call) and isinstance(a.func, ast.Attribute) and a.func.attr == "format" and isinstance(a.func.value, ast.Name) and a.func.value.id in templates and all(isinstance(x, ast.Constant) for x in a.args):
            pat = templates[a.func.value.id].format(*[x.value for x in a.args])
        k = key(m, "merged_gff_records", f"pattern of `{norm(st.targets[0])}`")
        if pat is None:
            chk.unresolved("R17.8", k, m.loc(st), "pattern text could not be folded")
            continue
        flags = [norm(x) for x in c.args[1:]] + [norm(kw.value) for kw in c.keywords if kw.arg == "flags"]
        ci = any("IGNORECASE" in f or f.endswith("re.I") for f in flags) or "(?i" in pat
        anchored = pat.startswith("(?:^|;)") or pat.startswith("(?:;|^)") or pat.startswith("(?<![^;])") or pat.startswith("(?:^|(?<=;))")
        chk.decide(anchored and not ci, "R17.8", k, m.loc(st), f"pattern {pat!r}", f"pattern {pat!r}{' (case-insensitive)' if ci else ''} {'is not anchored at the start of an attribute' if not anchored else ''}: keys that merely end in the same letters (exon_id=, geneID=) supply the identifier, so rows without an ID that share such a value are merged into one record")
    chk.floor("R17.8", 2, "ID and Parent patterns")


def r17_9(chk):
    chk.rule("R17.9", "transaction discipline of the annotation dbs: every data-changing statement sent through the raw connection (self.db.execute / executemany of INSERT / UPDATE / DELETE outside `with self.db:` and outside _execute_sql, which commits) is followed by self.db.commit() on every normal path of the same function -- as the sibling bulk inserts do; an insert left uncommitted keeps the connection in a transaction and a later write() (sqlite backup) never returns")
    from ..cfg import build

    m = chk.repo.module(DB)
    n = 0
    for q, fn in m.all_functions():
        g = None
        for c in walk_no_nested(fn):
            if not (isinstance(c, ast.Call) and isinstance(c.func, ast.Attribute) and c.func.attr in ("execute", "executemany") and norm(c.func.value) in ("self.db", "self._db")):
                continue
            # statement text: a literal / f-string / a local bound to one
            arg = c.args[0] if c.args else None
            texts = []
            if arg is not None:
                cand = [arg] + [v for tg, v, _ in __import__("c3static.defuse", fromlist=["assignments"]).assignments(fn) if isinstance(arg, ast.Name) and any(isinstance(t, ast.Name) and t.id == arg.id for t in tg)]
                for e in cand:
                    for x in ast.walk(e):
                        if isinstance(x, ast.Constant) and isinstance(x.value, str):
                            texts.append(x.value.upper())
            if not any(k in t for t in texts for k in ("INSERT", "UPDATE", "DELETE", "REPLACE")):
                continue
            # inside `with self.db:` the context manager commits
            in_with = any(isinstance(w, ast.With) and any(norm(it.context_expr) in ("self.db", "self._db") for it in w.items) and any(c is x for x in ast.walk(w)) for w in ast.walk(fn))
            n += 1
            k = key(m, q, f"`{norm(c)[:50]}` committed")
            if in_with:
                chk.ok("R17.9", k, m.loc(c), "inside `with self.db:`")
                continue
            g = g or build(fn)
            holders = g.nodes_containing(lambda x: x is c)
            commits = g.nodes_containing(lambda x: isinstance(x, ast.Call) and isinstance(x.func, ast.Attribute) and x.func.attr == "commit" and norm(x.func.value) in ("self.db", "self._db"))
            okc = bool(holders) and bool(commits) and all(g.always_followed_by(h, commits, exceptional=False)[0] for h in holders)
            chk.decide(okc, "R17.9", k, m.loc(c), "followed by self.db.commit() on every normal path", f"`{norm(c)[:70]}` changes the db through the raw connection and the function can return without self.db.commit(): the connection stays in a transaction (db.in_transaction is True) and a following write() -- sqlite backup inside `with self.db` -- spins for ever; the sibling bulk inserts commit")
    chk.floor("R17.9", 3, "raw bulk inserts of the annotation dbs")


def r17_10(chk):
    chk.rule("R17.10", "union() returns a NEW db and leaves both operands alone: the result is constructed empty (cls()) and filled with update(); it is never constructed on the receiver (`cls(db=self)` / `db=self.db`), because _setup_db BINDS the connection of a db of the same class instead of copying it -- the records of the other operand, and every later edit of the union, would land in the receiver")
    m = chk.repo.module(DB)
    fn = m.func("SqliteAnnotationDbMixin.union")
    setup = m.func("SqliteAnnotationDbMixin._setup_db")
    binds = any(isinstance(st, ast.Assign) and norm(st.targets[0]) == "self._db" and norm(st.value) in ("db.db", "db._db") for st in ast.walk(setup))
    ctor = [c for c in walk_no_nested(fn) if isinstance(c, ast.Call) and norm(c.func) in ("cls", "self.__class__", "type(self)")]
    if not ctor:
        raise AnalysisError("SqliteAnnotationDbMixin.union: construction of the result not found")
    for c in ctor:
        shared = [kw for kw in c.keywords if kw.arg in ("db", "source") and "self" in {x.id for x in ast.walk(kw.value) if isinstance(x, ast.Name)}] + [a for a in c.args if "self" in {x.id for x in ast.walk(a) if isinstance(x, ast.Name)}]
        chk.decide(not (shared and binds), "R17.10", key(m, "SqliteAnnotationDbMixin.union", "result not built on the receiver's connection"), m.loc(c), f"`{norm(c)}`", f"`{norm(c)}` hands the receiver to the constructor, and _setup_db binds (does not copy) the connection of a db of the same class: a.union(b) inserts b's records into a")
    upd = [c for c in walk_no_nested(fn) if isinstance(c, ast.Call) and isinstance(c.func, ast.Attribute) and c.func.attr == "update" and c.args and norm(c.args[0]) == "self"]
    built_from_self = any(kw.arg == "db" for c in ctor for kw in c.keywords)
    chk.decide(bool(upd) or built_from_self, "R17.10", key(m, "SqliteAnnotationDbMixin.union", "receiver's records copied in"), m.loc(fn), "db.update(self)", "the union no longer receives the receiver's records")
    chk.floor("R17.10", 2, "construction and fill of the union")


def r17_11(chk):
    chk.rule("R17.11", "reloading preserves the multiset of records and leaves the original alone: from_dict builds the db that receives the serialised records EMPTY -- the constructor arguments taken from the dict do not include the `source` the original was connected to (cls(source=<that file>) opens the file that already holds the records, and the insert doubles them there)")
    m = chk.repo.module(DB)
    fn = m.func("SqliteAnnotationDbMixin.from_dict")
    ctor = [c for c in walk_no_nested(fn) if isinstance(c, ast.Call) and norm(c.func) in ("cls", "self.__class__")]
    if not ctor:
        raise AnalysisError("from_dict: construction of the db not found")
    for c in ctor:
        spread = [kw.value for kw in c.keywords if kw.arg is None and isinstance(kw.value, ast.Name)]
        names_src = any(kw.arg == "source" for kw in c.keywords)
        removed = False
        for nm in spread:
            for x in walk_no_nested(fn):
                if isinstance(x, ast.Call) and isinstance(x.func, ast.Attribute) and x.func.attr == "pop" and norm(x.func.value) == nm.id and x.args and isinstance(x.args[0], ast.Constant) and x.args[0].value == "source":
                    removed = True
                if isinstance(x, ast.Delete) and any(norm(t) == f"{nm.id}['source']" for t in x.targets):
                    removed = True
                if isinstance(x, ast.Assign) and norm(x.targets[0]) == f"{nm.id}['source']":
                    removed = True
        chk.decide((not spread or removed) and not names_src, "R17.11", key(m, "SqliteAnnotationDbMixin.from_dict", "receiving db is built empty"), m.loc(c), "the serialised `source` is dropped before the constructor call", f"`{norm(c)}` passes the serialised constructor arguments on unchanged, `source` included: for a file-backed db the JSON round trip re-opens the original's file and inserts every record into it again (1 record becomes 2 in both)")
    chk.floor("R17.11", 1, "one deserialiser")


def r17_12(chk):
    chk.rule("R17.12", "every record of a flat file reaches the db: the GenBank loader iterates over all records the parser yields -- it does not take one element (`list(parser(path))[0]`, next(...)) of a stream that can hold several LOCUS records")
    m = chk.repo.module(DB)
    fn = m.func("_db_from_genbank")
    calls = [c for c in walk_no_nested(fn) if isinstance(c, ast.Call) and (call_name(c) or "").split(".")[-1] in ("minimal_parser", "rich_parser", "iter_genbank_records", "MinimalGenbankParser")]
    if not calls:
        raise AnalysisError("_db_from_genbank: parser call not found")
    for c in calls:
        looped = any(isinstance(f, (ast.For, ast.comprehension)) and any(x is c for x in ast.walk(f.iter)) for f in ast.walk(fn))
        picked = [s_ for s_ in ast.walk(fn) if isinstance(s_, ast.Subscript) and isinstance(s_.slice, ast.Constant) and any(x is c for x in ast.walk(s_.value))] + [n for n in ast.walk(fn) if isinstance(n, ast.Call) and call_name(n) == "next" and any(x is c for x in ast.walk(n))]
        chk.decide(looped and not picked, "R17.12", key(m, "_db_from_genbank", "all parsed records loaded"), m.loc(c), "iterates over the parser", f"`{norm(picked[0])[:60] if picked else norm(c)}` takes one record of the parsed file: the features of every further LOCUS record are silently dropped")
    chk.floor("R17.12", 1, "one loader")


TABLE_AGGREGATES = ("subset", "to_rich_dict", "num_matches", "get_records_matching", "get_features_matching", "count_distinct", "biotype_counts", "_update_db_from_other_db", "make_indexes")


def r17_13(chk):
    chk.rule("R17.13", "operations over a db cover all of its tables: in the methods that aggregate over self.table_names (subset, to_rich_dict, the matching queries, counts, update) the table loop has no `return` / `break` in its body -- leaving the loop because one table had nothing to contribute drops the records of the tables not yet visited (subset of a Gff db lost its user-added records when the gff table matched nothing)")
    m = chk.repo.module(DB)
    ci = m.cls("SqliteAnnotationDbMixin")
    n = 0
    for name in TABLE_AGGREGATES:
        fn = ci.methods.get(name)
        if not isinstance(fn, ast.FunctionDef):
            continue
        loops = [lp for lp in walk_no_nested(fn) if isinstance(lp, ast.For) and "table_names" in norm(lp.iter)]
        if not loops:
            continue
        n += 1
        bad = [x for lp in loops for b in lp.body for x in ast.walk(b) if isinstance(x, (ast.Return, ast.Break)) and not any(isinstance(inner, (ast.For, ast.While)) and inner is not lp and any(y is x for y in ast.walk(inner)) and isinstance(x, ast.Break) for inner in ast.walk(lp))]
        chk.decide(not bad, "R17.13", key(m, f"SqliteAnnotationDbMixin.{name}", "every table visited"), m.loc(bad[0] if bad else loops[0]), "no early exit from the table loop", f"`{norm(bad[0]) if bad else ''}` (line {bad[0].lineno if bad else 0}) leaves the loop over the tables: the tables after this one are never consulted, their matching records are missing from the result")
    chk.floor("R17.13", 6, "aggregate methods with a table loop")


# ---------------------------------------------------------------- R17.14
def _dict_keys_const(e):
    """set of constant keys when `e` can only be a dict literal (or a choice of them), else None"""
    if isinstance(e, ast.Dict):
        ks = set()
        for k_ in e.keys:
            if k_ is None:
                return None
            if isinstance(k_, ast.Constant):
                ks.add(k_.value)
            elif isinstance(k_, ast.Name):
                ks.add(f"<{k_.id}>")  # a column chosen by the caller of a private helper
            else:
                return None
        return ks
    if isinstance(e, ast.IfExp):
        a, b = _dict_keys_const(e.body), _dict_keys_const(e.orelse)
        return None if a is None or b is None else a | b
    return None


def _wraps_attributes(fn, name):
    for st in walk_no_nested(fn):
        if isinstance(st, ast.Assign) and len(st.targets) == 1 and isinstance(st.targets[0], ast.Subscript) and norm(st.targets[0].value) == name and isinstance(st.targets[0].slice, ast.Constant) and st.targets[0].slice.value == "attributes" and isinstance(st.value, ast.JoinedStr):
            parts = st.value.values
            if parts and isinstance(parts[0], ast.Constant) and str(parts[0].value).startswith("%") and isinstance(parts[-1], ast.Constant) and str(parts[-1].value).endswith("%"):
                return st
    return None


def r17_14(chk):
    chk.rule("R17.14", "one meaning of an `attributes` condition: the text column is searched for the given fragment, so every function that hands a condition mapping which can carry `attributes` to an SQL builder (_select_records_sql / _count_records_sql) wraps it as %fragment% first -- a count that matches exactly while the query matches fragments disagrees with the records returned")
    m = chk.repo.module(DB)
    n = 0
    for fnode, q in m.qual.items():
        if not isinstance(fnode, (ast.FunctionDef, ast.AsyncFunctionDef)):
            continue
        for c in walk_no_nested(fnode):
            if not (isinstance(c, ast.Call) and (call_name(c) or "").split(".")[-1] in ("_select_records_sql", "_count_records_sql")):
                continue
            cond = next((kw.value for kw in c.keywords if kw.arg == "conditions"), c.args[1] if len(c.args) > 1 else None)
            if cond is None:
                raise AnalysisError(f"{q}: SQL builder called without conditions")
            n += 1
            k = key(m, q, f"attributes condition reaching {(call_name(c) or '').split('.')[-1]}")
            exprs = [cond]
            if isinstance(cond, ast.Name):
                exprs = [st.value for st in walk_no_nested(fnode) if isinstance(st, ast.Assign) and any(isinstance(t, ast.Name) and t.id == cond.id for t in st.targets)]
            keysets = [_dict_keys_const(e) for e in exprs]
            if exprs and all(ks is not None for ks in keysets):
                ks = set().union(*keysets)
                chk.decide("attributes" not in ks, "R17.14", k, m.loc(c), f"conditions built from the fixed keys {sorted(ks)}", "a literal `attributes` condition is passed without the fragment wrapping")
                continue
            if not isinstance(cond, ast.Name):
                chk.unresolved("R17.14", k, m.loc(c), f"conditions expression {norm(cond)} not understood")
                continue
            w = _wraps_attributes(fnode, cond.id)
            if w is None:
                # the wrapping may live in a helper the mapping is handed to (one level)
                for hc in walk_no_nested(fnode):
                    if isinstance(hc, ast.Call) and hc.lineno < c.lineno and any(isinstance(a_, ast.Name) and a_.id == cond.id for a_ in list(hc.args) + [kw.value for kw in hc.keywords]):
                        hname = (call_name(hc) or "").split(".")[-1]
                        helper = next((f_ for f_, q_ in m.qual.items() if isinstance(f_, ast.FunctionDef) and q_.split(".")[-1] == hname), None)
                        if helper is not None:
                            for hp in params_of(helper):
                                hw = _wraps_attributes(helper, hp)
                                if hw is not None:
                                    w = hc
            chk.decide(w is not None and w.lineno < c.lineno, "R17.14", k, m.loc(c), f"`{cond.id}['attributes']` wrapped as %...% before the call", f"`{cond.id}` can carry the caller's `attributes` value but reaches the SQL builder unwrapped: this function matches the whole column (=) where get_features_matching matches a fragment (LIKE %..%), e.g. num_matches(attributes='Hello') == 0 while get_features_matching(attributes='Hello') yields the record")
    # the wrapping decision is the same wherever it is taken (a query and the count for it must not disagree)
    guards = []
    for fnode, q in m.qual.items():
        if not isinstance(fnode, (ast.FunctionDef, ast.AsyncFunctionDef)):
            continue
        for iff in walk_no_nested(fnode):
            if isinstance(iff, ast.If):
                for st in iff.body:
                    if isinstance(st, ast.Assign) and isinstance(st.targets[0], ast.Subscript) and isinstance(st.targets[0].slice, ast.Constant) and st.targets[0].slice.value == "attributes" and isinstance(st.value, ast.JoinedStr):
                        t = norm(iff.test)
                        mapping = norm(st.targets[0].value)
                        canon = t.replace(f"{mapping}.get('attributes', None)", "A").replace(f"{mapping}['attributes']", "A").replace("attributes", "A")
                        guards.append((q, iff, canon))
    if len(guards) >= 2:
        ref = guards[0][2]
        for q, iff, canon in guards:
            chk.decide(canon == ref, "R17.14", key(m, q, "same wrapping guard as the other entry points"), m.loc(iff), f"guard `{canon}`", f"{q} wraps an attributes condition under `{canon}` but {guards[0][0]} under `{ref}`: for a value containing '%' (URL-escaped text such as %2C in GFF3 column 9) one of them searches for the fragment and the other matches the whole column, so num_matches() and the records returned disagree")
    chk.floor("R17.14", 4, "four SQL-builder call sites")


def r17_15(chk):
    chk.rule("R17.15", "no row without coordinates: the readers (get_features_matching, to_rich_dict) use `spans` of every stored row unconditionally, so in each row builder the insertion of a row is not reachable on a path on which that row's `spans` was not assigned (a GenBank feature whose location cannot be interpreted -- e.g. the between-bases form 15^16 -- is left out, not stored with NULL spans/start/stop where it makes every unfiltered query and the serialisation raise)")
    from ..cfg import build

    m = chk.repo.module(DB)
    n = 0
    for q in ROW_BUILDERS:
        fn = m.func(q)
        g = build(fn)
        span_nodes = g.nodes_containing(lambda x: isinstance(x, ast.Assign) and len(x.targets) == 1 and _target_name(x.targets[0])[0] == "spans") if False else [nd for nd in g.nodes if isinstance(getattr(nd, "ast", None), ast.Assign) and len(nd.ast.targets) == 1 and _target_name(nd.ast.targets[0])[0] == "spans"]
        inserts = g.nodes_containing(lambda x: isinstance(x, ast.Call) and ((isinstance(x.func, ast.Attribute) and x.func.attr == "append" and norm(x.func.value) == "rows") or (call_name(x) or "").split(".")[-1] == "_add_record_sql"))
        if not inserts:
            raise AnalysisError(f"{q}: row insertion not found")
        loops = [nd for nd in g.nodes if nd.kind == "loop"]
        n += 1
        k = key(m, q, "a row is inserted only with its spans")
        bad = None
        if loops:
            for lp in loops:
                body_first = [b for b, kd in lp.succ if kd == "n" and any(b.ast is st or any(b.ast is y for y in ast.walk(st)) for st in lp.ast.body)]
                seen = g.reachable(body_first, blocked=span_nodes, kinds=("n",))
                for ins in inserts:
                    if id(ins) in seen and any(ins.ast is y or any(ins.ast is z for z in ast.walk(y)) for y in ast.walk(lp.ast)):
                        bad = g._path(seen, ins)
        else:
            seen = g.reachable([g.entry], blocked=span_nodes, kinds=("n",))
            # add_feature: spans is a parameter, re-bound from it; nothing to show
            params = set(params_of(fn))
            if "spans" not in params:
                for ins in inserts:
                    if id(ins) in seen:
                        bad = g._path(seen, ins)
        if bad is not None:
            chk.violation("R17.15", k, m.loc(bad[-1].ast), f"the insertion is reachable without an assignment of spans: {g.show_path(bad)}; the row is stored with NULL spans/start/stop and list(db.get_features_matching()) then raises TypeError, db.to_rich_dict() KeyError")
        else:
            chk.ok("R17.15", k, m.loc(fn), "every path to the insertion assigns spans first")
    chk.floor("R17.15", 4, "four row builders")


def r17_16(chk):
    chk.rule("R17.16", "every stored row is built from its own record only: in the row builders that loop over records, a mapping that receives a key under a condition inside the loop (`store['strand'] = ...` only when the location has a single strand) is created afresh in each iteration -- hoisted out of the loop, the value of the previous record is still there when the condition does not hold, so a mixed-strand GenBank location inherits the strand of the feature before it")
    m = chk.repo.module(DB)
    n = 0
    for q in ROW_BUILDERS:
        fn = m.func(q)
        for lp in [x for x in walk_no_nested(fn) if isinstance(x, ast.For)]:
            loopvars = {x.id for x in ast.walk(lp.target) if isinstance(x, ast.Name)}
            cond_stores = {}
            for iff in [x for b in lp.body for x in ast.walk(b) if isinstance(x, ast.If)]:
                for st in ast.walk(iff):
                    if isinstance(st, ast.Assign):
                        for t in st.targets:
                            if isinstance(t, ast.Subscript) and isinstance(t.value, ast.Name) and t.value.id not in loopvars:
                                cond_stores.setdefault(t.value.id, st)
            for name, st in cond_stores.items():
                n += 1
                fresh = any(isinstance(b, ast.Assign) and any(isinstance(t, ast.Name) and t.id == name for t in b.targets) and isinstance(b.value, (ast.Dict, ast.DictComp, ast.Call)) for b in lp.body)
                # unconditional re-assignment of the same key at loop-body level also makes the row self-contained
                keyx = norm(st.targets[0].slice) if isinstance(st.targets[0], ast.Subscript) else ""
                always = any(isinstance(b, ast.Assign) and any(isinstance(t, ast.Subscript) and norm(t.value) == name and norm(t.slice) == keyx for t in b.targets) for b in lp.body)
                chk.decide(fresh or always, "R17.16", key(m, q, f"`{name}` is per-record"), m.loc(st), f"`{name}` is created inside the loop", f"`{norm(st)[:60]}` is conditional but `{name}` is created outside the loop over the records: when the condition fails the key keeps the previous record's value (join(complement(70..90),100..120) after a '-' strand feature is stored as '-')")
    chk.floor("R17.16", 1, "the conditional strand of the GenBank builder")


def r17_17(chk):
    chk.rule("R17.17", "counts over a db are sums over its tables: where an aggregate keeps a running Counter / mapping across the table loop, the per-table part is ADDED to it (Counter.update, +=, acc[k] += n) -- never merged with `|=` (a Counter keeps the maximum), a plain-dict update or an item store (both overwrite): with 3 genes in the gff table and 2 user-added ones biotype_counts() must say 5")
    m = chk.repo.module(DB)
    ci = m.cls("SqliteAnnotationDbMixin")
    n = 0
    for name in TABLE_AGGREGATES:
        fn = ci.methods.get(name)
        if not isinstance(fn, ast.FunctionDef):
            continue
        loops = [lp for lp in walk_no_nested(fn) if isinstance(lp, ast.For) and "table_names" in norm(lp.iter)]
        if not loops:
            continue
        accs = {}
        for st in fn.body:
            if isinstance(st, ast.Assign) and len(st.targets) == 1 and isinstance(st.targets[0], ast.Name) and st.lineno < loops[0].lineno:
                v = st.value
                if isinstance(v, ast.Call) and (call_name(v) or "").split(".")[-1] == "Counter":
                    accs[st.targets[0].id] = "Counter"
                elif isinstance(v, ast.Dict) and not v.keys or (isinstance(v, ast.Call) and norm(v.func) == "dict" and not v.args and not v.keywords):
                    accs[st.targets[0].id] = "dict"
                elif isinstance(v, ast.Constant) and v.value == 0:
                    accs[st.targets[0].id] = "int"
        for acc, kind in accs.items():
            if kind == "dict" and name in ("to_rich_dict",):
                continue  # keyed by table name: one entry per table, nothing to add up
            n += 1
            bad = None
            for x in [y for lp in loops for b in lp.body for y in ast.walk(b)]:
                if isinstance(x, ast.AugAssign) and norm(x.target) == acc and not isinstance(x.op, ast.Add):
                    bad = x
                if isinstance(x, ast.Assign) and any(norm(t) == acc for t in x.targets):
                    bad = x
                if kind == "dict" and isinstance(x, ast.Call) and isinstance(x.func, ast.Attribute) and x.func.attr == "update" and norm(x.func.value) == acc:
                    bad = x
                if kind in ("Counter", "dict") and isinstance(x, ast.Assign) and any(isinstance(t, ast.Subscript) and norm(t.value) == acc for t in x.targets) and not any(isinstance(y, ast.Subscript) and norm(y.value) == acc for y in ast.walk(x.value)) and "get(" not in norm(x.value):
                    bad = x
            chk.decide(bad is None, "R17.17", key(m, f"SqliteAnnotationDbMixin.{name}", f"`{acc}` adds up over the tables"), m.loc(bad if bad is not None else fn), f"the running {kind} is only added to", f"`{norm(bad)[:70] if bad is not None else ''}` does not add the table's part to `{acc}`: for a key present in two tables the result keeps one table's count (|= on a Counter keeps the maximum), e.g. 3 'gene' records in gff + 2 in user are reported as 3")
    chk.floor("R17.17", 2, "num_matches and biotype_counts")


def run(chk):
    r17_17(chk)
    r17_16(chk)
    r17_15(chk)
    r17_14(chk)
    r17_13(chk)
    r17_12(chk)
    r17_11(chk)
    r17_10(chk)
    r17_9(chk)
    r17_8(chk)
    r17_7(chk)
    r17_6(chk)
    r17_5(chk)
    r17_1(chk)
    r17_2(chk)
    r17_3(chk)
    r17_4(chk)
    chk.assume("features and query windows are non-empty (start < stop); empty intervals are outside the compared order types")
    chk.assume("SQLite evaluates the comparison operators on INTEGER columns as integer comparisons")
