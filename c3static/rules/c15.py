"""C15 -- distance estimation and distance-based trees are exact on exact data (PARTIAL).

NOT decided: that TN93, paralinear and LogDet equal their published formulas, that neighbour joining
returns the generating tree of every additive matrix and UPGMA of every ultrametric one -- numerical
statements over all matrices / trees with nothing structural behind them.  Decided (the clauses whose
truth is bookkeeping or a closed form small enough to read off the syntax tree):

R15.1 symmetry: every store of a pairwise statistic under a (name_a, name_b) key is mirrored under
      (name_b, name_a) with the same value (the calculators' run/_expand and the table maker), and no
      store keys a pair of one name with itself (the diagonal stays at the matrix default, zero).
R15.2 non-canonical columns: the two implementations of the count matrix filler (the python reference
      _fill_diversity_matrix and the numba kernel the calculators actually call) agree -- a column is
      skipped when EITHER sequence has an invalid (negative) index, a kept column adds exactly one at
      [state of seq1, state of seq2]; the character-to-index table is filled with the (negative) invalid
      marker before the canonical characters are numbered.
R15.3 column order: in the numba filler the column counter is used only to subscript the two sequences and
      the only cross-iteration effect is the `+=` on the count matrix -- the counts (and so every
      estimator, all functions of the counts alone) cannot depend on column order.
R15.4 the duplicate shortcut: a sequence is dropped as a duplicate only when NO off-diagonal count is
      positive, off_diag enumerating every i != j.
R15.6 a distance is filed under the names of the sequences it was computed from (conversion loop by name, shared
      subscripts in run()).
R15.7 constructor options of the calculators are set after the base constructor (which resets them).
R15.8 PartialTree.join edits only copies of the receiver's matrix / node / tip lists.
R15.9 a looked-up distance of 0.0 is not treated as missing (phylo/util.py).
R15.10 DistanceMatrix.__getitem__ does not write to the matrix it reads (known finding).
R15.11 _expand reads alias distances from the table it is filling.
R15.12 the duplicate relation is established on the sequences themselves (known finding: it is not).
R15.13 UPGMA's working array is float before its diagonal is overwritten in place.
R15.5 closed forms small enough to decide symbolically: the proportion different is (total - trace) / total,
      JC69 is c * log(a + b * p) with (a, b, c) = (1, -4/3, -3/4) and is refused for p >= 3/4 -- extracted
      by folding the function body to an affine form in p with exact rationals (not by running it).
"""

from __future__ import annotations

import ast
from fractions import Fraction

from ..index import AnalysisError, call_name, norm, params_of, walk_no_nested
from ..report import key

FD = "evolve/fast_distance.py"
NB = "evolve/pairwise_distance_numba.py"


def _pair_key(t):
    """(a, b) texts of a subscript target keyed by a 2-tuple, else None"""
    if isinstance(t, ast.Subscript) and isinstance(t.slice, ast.Tuple) and len(t.slice.elts) == 2:
        return norm(t.value), norm(t.slice.elts[0]), norm(t.slice.elts[1])
    return None


def r15_1(chk):
    chk.rule("R15.1", "pairwise statistics are stored symmetrically: in evolve/fast_distance.py every store `X[(a, b)] = v` / `X[a, b] = v` of a statistic keyed by a pair of names or indices is accompanied, in the same block, by `X[(b, a)] = v` with the same value, and no store uses one name twice (diagonal entries are never written: they stay at the default 0)")
    m = chk.repo.module(FD)
    n = 0
    for q, fn in m.all_functions():
        # blocks of statements
        for blk_owner in [fn] + [x for x in walk_no_nested(fn) if isinstance(x, (ast.For, ast.While, ast.If, ast.With, ast.Try))]:
            for body in [getattr(blk_owner, a, None) for a in ("body", "orelse", "finalbody")]:
                if not isinstance(body, list):
                    continue
                stores = []
                for st in body:
                    if isinstance(st, ast.Assign):
                        for t in st.targets:
                            pk = _pair_key(t)
                            if pk and pk[1] != pk[2] and not pk[1].isdigit() and not pk[2].isdigit():
                                stores.append((pk, norm(st.value) if len(st.targets) == 1 else "chain:" + norm(st.value), st))
                if not stores:
                    continue
                for (x, a, b), v, st in stores:
                    if x in ("matrix", "result", "frequency") or ":" in a + b:
                        continue  # count matrices / slices are not pair-keyed statistics
                    n += 1
                    mirror = [s for (x2, a2, b2), v2, s in stores if x2 == x and a2 == b and b2 == a and v2 == v]
                    k = key(m, q, f"{x}[({a}, {b})] mirrored")
                    chk.decide(bool(mirror), "R15.1", k, m.loc(st), f"{x}[({b}, {a})] receives the same value", f"`{norm(st)[:80]}` has no mirror store {x}[({b}, {a})] = {v.replace('chain:', '')}: the distance matrix is no longer symmetric")
    chk.floor("R15.1", 6, "run (2), _expand (2), _make_stat_table (2)")


def r15_2(chk):
    chk.rule("R15.2", "the two count-matrix fillers agree on non-canonical columns: the python reference keeps the columns with paired.min(axis=1) >= 0 (both indices valid), the numba kernel skips a column when `seq1[i] < 0 or seq2[i] < 0`; each kept column adds exactly 1 at [seq1 state, seq2 state]; get_moltype_index_array fills the table with the invalid marker (negative by default) BEFORE numbering the canonical characters")
    mk = chk.repo.module(NB)
    kf = mk.func("fill_diversity_matrix")
    ps = params_of(kf)
    k = key(mk, "fill_diversity_matrix", "skips a column when either index is invalid")
    loops = [lp for lp in walk_no_nested(kf) if isinstance(lp, ast.For) and isinstance(lp.target, ast.Name)]
    if not loops:
        chk.unresolved("R15.2", k, mk.loc(kf), "no column loop (vectorised form not modelled)")
    else:
        lp = loops[0]
        i = lp.target.id
        skips = [s for s in lp.body if isinstance(s, ast.If) and any(isinstance(x, ast.Continue) for x in s.body)]
        want = {f"{ps[1]}[{i}] < 0", f"{ps[2]}[{i}] < 0"}
        got = set()
        for s in skips:
            t = s.test
            parts = t.values if isinstance(t, ast.BoolOp) and isinstance(t.op, ast.Or) else [t]
            got |= {norm(p) for p in parts}
        # the guarded form: if seq1[i] >= 0 and seq2[i] >= 0: matrix[...] += 1
        guards = [s for s in lp.body if isinstance(s, ast.If) and not any(isinstance(x, ast.Continue) for x in s.body)]
        g_ok = False
        for s in guards:
            t = s.test
            parts = {norm(p) for p in (t.values if isinstance(t, ast.BoolOp) and isinstance(t.op, ast.And) else [t])}
            if {f"{ps[1]}[{i}] >= 0", f"{ps[2]}[{i}] >= 0"} <= parts:
                g_ok = True
        chk.decide(want <= got or g_ok, "R15.2", k, mk.loc(skips[0] if skips else lp), "either index negative -> column skipped", f"the kernel skips on {sorted(got)} only: a column in which one sequence has a gap / ambiguity code is counted (with a negative index wrapping to the last state) -- the python reference drops it")
        adds = [s for s in ast.walk(lp) if isinstance(s, ast.AugAssign)]
        okadd = len(adds) == 1 and isinstance(adds[0].op, ast.Add) and norm(adds[0].target) == f"{ps[0]}[{ps[1]}[{i}], {ps[2]}[{i}]]" and isinstance(adds[0].value, ast.Constant) and adds[0].value.value == 1
        chk.decide(okadd, "R15.2", key(mk, "fill_diversity_matrix", "adds one at [seq1 state, seq2 state]"), mk.loc(adds[0] if adds else lp), "matrix[seq1[i], seq2[i]] += 1", f"`{norm(adds[0]) if adds else '?'}` is not a unit count at [seq1 state, seq2 state]")
        full = norm(lp.iter) in (f"range(len({ps[1]}))", f"range(len({ps[2]}))", f"range({ps[1]}.shape[0])", f"range({ps[2]}.shape[0])")
        chk.decide(full, "R15.2", key(mk, "fill_diversity_matrix", "visits every column"), mk.loc(lp), norm(lp.iter), f"`{norm(lp.iter)}` does not range over all columns")
    m = chk.repo.module(FD)
    pf = m.func("_fill_diversity_matrix")
    flt = [c for c in ast.walk(pf) if isinstance(c, ast.Compare) and "min(axis=1)" in norm(c.left)]
    okp = bool(flt) and isinstance(flt[0].ops[0], ast.GtE) and norm(flt[0].comparators[0]) == "0"
    chk.decide(okp, "R15.2", key(m, "_fill_diversity_matrix", "keeps columns with both indices valid"), m.loc(flt[0] if flt else pf), "paired.min(axis=1) >= 0", "the reference filler no longer keeps exactly the columns whose two indices are non-negative")
    g = m.func("get_moltype_index_array")
    fills = [st for st in g.body if isinstance(st, ast.Expr) and isinstance(st.value, ast.Call) and norm(st.value.func).endswith(".fill")]
    loops = [st for st in g.body if isinstance(st, ast.For)]
    inv = [a for a, d in zip(g.args.args[-len(g.args.defaults):], g.args.defaults) if a.arg == "invalid" and ((isinstance(d, ast.UnaryOp) and isinstance(d.op, ast.USub)) or (isinstance(d, ast.Constant) and isinstance(d.value, (int, float)) and d.value < 0))]
    okg = bool(fills) and bool(loops) and g.body.index(fills[0]) < g.body.index(loops[-1]) and norm(fills[0].value.args[0]) == "invalid" and bool(inv)
    chk.decide(okg, "R15.2", key(m, "get_moltype_index_array", "invalid marker first, negative"), m.loc(fills[0] if fills else g), "table filled with invalid (<0) before canonical characters are numbered", "the character table is not pre-filled with a negative invalid marker: non-canonical characters would count as a state")
    # every calculator passes its own invalid marker on, and rejects a non-negative one
    chk.floor("R15.2", 5, "kernel (3), reference, index table")


def r15_3(chk):
    chk.rule("R15.3", "the counts do not depend on column order: in the numba filler the loop counter is used only as the subscript of the two sequences, nothing but the count matrix is written in the loop, and it is written only by `+=` (a commutative accumulation)")
    mk = chk.repo.module(NB)
    kf = mk.func("fill_diversity_matrix")
    ps = params_of(kf)
    loops = [lp for lp in walk_no_nested(kf) if isinstance(lp, ast.For) and isinstance(lp.target, ast.Name)]
    k = key(mk, "fill_diversity_matrix", "iterations commute")
    if not loops:
        chk.unresolved("R15.3", k, mk.loc(kf), "no column loop")
        chk.floor("R15.3", 0, "")
        return
    lp = loops[0]
    i = lp.target.id
    bad = []
    for x in ast.walk(lp):
        if isinstance(x, ast.Name) and x.id == i and isinstance(x.ctx, ast.Load):
            pass
    # every Load of i sits directly in seqK[i]
    parents = {}
    for x in ast.walk(lp):
        for c in ast.iter_child_nodes(x):
            parents[c] = x
    for x in ast.walk(lp):
        if isinstance(x, ast.Name) and x.id == i and isinstance(x.ctx, ast.Load) and x is not lp.target:
            p = parents.get(x)
            if not (isinstance(p, ast.Subscript) and p.slice is x and norm(p.value) in (ps[1], ps[2])):
                bad.append(f"`{i}` used in `{norm(p)[:40]}`")
    for s in ast.walk(lp):
        if isinstance(s, ast.Assign):
            bad.append(f"`{norm(s)[:50]}` assigns inside the loop")
        if isinstance(s, ast.AugAssign) and not (isinstance(s.op, ast.Add) and isinstance(s.target, ast.Subscript) and norm(s.target.value) == ps[0]):
            bad.append(f"`{norm(s)[:50]}`")
    chk.decide(not bad, "R15.3", k, mk.loc(lp), "counter only subscripts the sequences; only matrix[...] += ... is written", "; ".join(bad) + ": the counts depend on the position or order of the columns")
    chk.floor("R15.3", 1, "numba filler")


def r15_4(chk):
    chk.rule("R15.4", "a sequence is set aside as a duplicate of another only when their count matrix has NO positive off-diagonal entry, off_diag listing every (i, j) with i != j over the full dimension")
    m = chk.repo.module(FD)
    q = "_PairwiseDistance.run"
    fn = m.func(q)
    od = [s for s in walk_no_nested(fn) if isinstance(s, ast.Assign) and norm(s.targets[0]) == "off_diag" and isinstance(s.value, ast.ListComp)]
    dims = {"self._dim", "len(names)", "len(self.names)"} | {s.targets[0].id for s in walk_no_nested(fn) if isinstance(s, ast.Assign) and isinstance(s.targets[0], ast.Name) and norm(s.value) in ("self._dim", "len(names)", "len(self.names)")}
    k1 = key(m, q, "off_diag is every i != j")
    if not od or len(od[0].value.generators) != 2 or not all(isinstance(g.iter, ast.Call) and call_name(g.iter) == "range" and len(g.iter.args) == 1 for g in od[0].value.generators):
        chk.unresolved("R15.4", k1, m.loc(od[0] if od else fn), "off_diag is not a two-generator comprehension over range(dim)")
    else:
        gens = od[0].value.generators
        a, b = norm(gens[0].target), norm(gens[1].target)
        conds = [norm(c) for g in gens for c in g.ifs]
        ok1 = all(norm(g.iter.args[0]) in dims for g in gens) and conds in ([f"{a} != {b}"], [f"{b} != {a}"], [f"not {a} == {b}"])
        chk.decide(ok1, "R15.4", k1, m.loc(od[0]), "[(i, j) for i, j in dim x dim if i != j]", f"off_diag keeps (i, j) under {conds} over {[norm(g.iter) for g in gens]}: not every off-diagonal cell -- a pair of sequences differing only in the cells left out is set aside as duplicates")
    tests = [i for i in walk_no_nested(fn) if isinstance(i, ast.If) and "off_diag" in norm(i.test)]
    k2 = key(m, q, "duplicate iff no positive off-diagonal count")
    verdict = None
    if tests:
        t = tests[0].test
        neg = False
        if isinstance(t, ast.UnaryOp) and isinstance(t.op, ast.Not):
            neg, t = True, t.operand
        if isinstance(t, ast.Call) and isinstance(t.func, ast.Attribute) and t.func.attr in ("any", "all") and not t.args:
            inner = t.func.value
            agg = t.func.attr
            if isinstance(inner, ast.Compare) and len(inner.ops) == 1 and norm(inner.left) == "matrix[off_diag]" and isinstance(inner.comparators[0], ast.Constant):
                op, c = type(inner.ops[0]).__name__, inner.comparators[0].value
                positive = (op, c) in (("Gt", 0), ("GtE", 1), ("NotEq", 0))
                zero = (op, c) in (("Eq", 0), ("LtE", 0), ("Lt", 1))
                verdict = (neg and agg == "any" and positive) or (not neg and agg == "all" and zero)
            elif norm(inner) == "matrix[off_diag]" and agg == "any":
                verdict = neg
    if verdict is None:
        chk.unresolved("R15.4", k2, m.loc(tests[0] if tests else fn), f"duplicate test `{norm(tests[0].test) if tests else '?'}` is of an unrecognised form")
    else:
        chk.decide(verdict, "R15.4", k2, m.loc(tests[0]), norm(tests[0].test), f"the duplicate test `{norm(tests[0].test)}` is not 'no off-diagonal count is positive': sequences that differ are merged as duplicates (distance 0), or identical ones are not")
    chk.floor("R15.4", 2, "off_diag and the duplicate test")


class _NotAffine(Exception):
    pass


def _affine(e, env):
    """fold an expression to (a, b) meaning a + b*p with exact rationals; env maps names to such pairs"""
    if isinstance(e, ast.Constant) and isinstance(e.value, (int, float)) and not isinstance(e.value, bool):
        return (Fraction(e.value).limit_denominator(10**6), Fraction(0))
    if isinstance(e, ast.Name) and e.id in env:
        return env[e.id]
    if isinstance(e, ast.UnaryOp) and isinstance(e.op, ast.USub):
        a, b = _affine(e.operand, env)
        return (-a, -b)
    if isinstance(e, ast.BinOp):
        l, r = _affine(e.left, env), _affine(e.right, env)
        if isinstance(e.op, ast.Add):
            return (l[0] + r[0], l[1] + r[1])
        if isinstance(e.op, ast.Sub):
            return (l[0] - r[0], l[1] - r[1])
        if isinstance(e.op, ast.Mult):
            if l[1] == 0:
                return (l[0] * r[0], l[0] * r[1])
            if r[1] == 0:
                return (l[0] * r[0], l[1] * r[0])
        if isinstance(e.op, ast.Div) and r[1] == 0 and r[0] != 0:
            return (l[0] / r[0], l[1] / r[0])
    raise _NotAffine(norm(e))


def _scaled_log(e, env):
    """fold `c * log(affine)` (in any arrangement of *, /, unary minus) to (c, (a, b))"""
    if isinstance(e, ast.Call) and (call_name(e) or "").split(".")[-1] == "log" and len(e.args) == 1:
        return (Fraction(1), _affine(e.args[0], env))
    if isinstance(e, ast.UnaryOp) and isinstance(e.op, ast.USub):
        c, f = _scaled_log(e.operand, env)
        return (-c, f)
    if isinstance(e, ast.BinOp) and isinstance(e.op, (ast.Mult, ast.Div)):
        for first, second in ((e.left, e.right), (e.right, e.left)):
            try:
                c, f = _scaled_log(first, env)
                s = _affine(second, env)
            except _NotAffine:
                continue
            if s[1] != 0:
                continue
            if isinstance(e.op, ast.Mult):
                return (c * s[0], f)
            if first is e.left and s[0] != 0:
                return (c / s[0], f)
    raise _NotAffine(norm(e))


def r15_5(chk):
    chk.rule("R15.5", "closed forms read off the syntax tree with exact rationals: the proportion different is (total - trace) / total; JC69 folds to dist = c * log(a + b*p) with (a, b, c) = (1, -4/3, -3/4), p = (total - trace) / total, and p >= 3/4 is refused before the logarithm")
    m = chk.repo.module(FD)
    for q in ("_hamming", "_jc69_from_matrix"):
        fn = m.func(q)
        mat = params_of(fn)[0]
        assigns = {}
        for st in walk_no_nested(fn):
            if isinstance(st, ast.Assign) and len(st.targets) == 1 and isinstance(st.targets[0], ast.Name):
                assigns.setdefault(st.targets[0].id, []).append(st.value)
        def is_total(e):
            return norm(e) in (f"{mat}.sum()", f"sum({mat})", f"numpy.sum({mat})")
        def is_trace(e):
            return norm(e) in (f"diag({mat}).sum()", f"{mat}.diagonal().sum()", f"{mat}.trace()", f"numpy.trace({mat})", f"numpy.diag({mat}).sum()")
        tot = [n for n, vs in assigns.items() if len(vs) == 1 and is_total(vs[0])]
        diffs = [n for n, vs in assigns.items() if len(vs) == 1 and isinstance(vs[0], ast.BinOp) and isinstance(vs[0].op, ast.Sub) and ((isinstance(vs[0].left, ast.Name) and vs[0].left.id in tot) or is_total(vs[0].left)) and is_trace(vs[0].right)]
        ps_ = [n for n, vs in assigns.items() if len(vs) == 1 and isinstance(vs[0], ast.BinOp) and isinstance(vs[0].op, ast.Div) and isinstance(vs[0].left, ast.Name) and vs[0].left.id in diffs and isinstance(vs[0].right, ast.Name) and vs[0].right.id in tot]
        chk.decide(bool(ps_), "R15.5", key(m, q, "p = (total - trace) / total"), m.loc(fn), f"p = {ps_} = {diffs} / {tot}", "the proportion of differing valid columns is not (total - trace) / total")
        if q == "_hamming" or not ps_:
            continue
        p = ps_[0]
        env = {p: (Fraction(0), Fraction(1))}
        # fold the straight-line assignments in order
        dist = None
        try:
            for st in walk_no_nested(fn):
                if isinstance(st, ast.Assign) and len(st.targets) == 1 and isinstance(st.targets[0], ast.Name):
                    t = st.targets[0].id
                    if t in (p,) or t in tot or t in diffs:
                        continue
                    if t == "dist":
                        dist = _scaled_log(st.value, env)
                        break
                    try:
                        env[t] = _affine(st.value, env)
                    except _NotAffine:
                        pass
        except _NotAffine as e:
            chk.unresolved("R15.5", key(m, q, "JC69 closed form"), m.loc(fn), f"dist is not c*log(affine in p): {e}")
            continue
        k = key(m, q, "JC69 closed form")
        if dist is None:
            chk.unresolved("R15.5", k, m.loc(fn), "no assignment to dist found")
        else:
            c, (a, b) = dist
            chk.decide((a, b, c) == (Fraction(1), Fraction(-4, 3), Fraction(-3, 4)), "R15.5", k, m.loc(fn), f"dist = {c} * log({a} + {b}*p)", f"dist folds to {c} * log({a} + ({b})*p); the Jukes-Cantor distance is -3/4 * log(1 - 4/3 p)")
        guards = [i for i in walk_no_nested(fn) if isinstance(i, ast.If) and isinstance(i.test, ast.Compare) and norm(i.test.left) == p and any(isinstance(x, ast.Return) for x in i.body)]
        okg = False
        if guards:
            g = guards[0].test
            try:
                bound = _affine(g.comparators[0], {})[0]
                okg = isinstance(g.ops[0], ast.GtE) and bound == Fraction(3, 4)
            except _NotAffine:
                okg = False
        chk.decide(okg, "R15.5", key(m, q, "saturation refused"), m.loc(guards[0] if guards else fn), "p >= 3/4 returns invalid before the log", "the saturation guard is not `p >= 0.75`: the logarithm of a non-positive number is taken (nan / -inf distance) or valid distances are refused")
    chk.floor("R15.5", 4, "p for both, JC69 form, saturation guard")


def r15_6(chk):
    chk.rule("R15.6", "a distance is filed under the names of the two sequences it was computed from: _convert_seqs_to_indices builds the indexed sequences by looping over self.names, fetching each sequence by that name and appending (so indexed_seqs[k] belongs to names[k]); in run() a name and the indexed sequence used with it carry the same subscript (name_1 = names[i] with s1 = indexed_seqs[i], name_2 = names[j] with s2 = indexed_seqs[j])")
    m = chk.repo.module(FD)
    q = "_PairwiseDistance._convert_seqs_to_indices"
    fn = m.func(q)
    loops = [lp for lp in walk_no_nested(fn) if isinstance(lp, ast.For) and isinstance(lp.target, ast.Name)]
    ok, why = False, "no loop over the names"
    if loops:
        lp = loops[0]
        v = lp.target.id
        gets = [c for c in ast.walk(lp) if isinstance(c, ast.Call) and isinstance(c.func, ast.Attribute) and c.func.attr in ("get_gapped_seq", "get_seq")]
        apps = [c for c in ast.walk(lp) if isinstance(c, ast.Call) and isinstance(c.func, ast.Attribute) and c.func.attr in ("append", "insert")]
        names_set = [s for s in walk_no_nested(fn) if isinstance(s, ast.Assign) and norm(s.targets[0]) == "self.names"]
        ok = norm(lp.iter) in ("self.names", "alignment.names") and bool(gets) and all(c.args and norm(c.args[0]) == v for c in gets) and bool(apps) and all(c.func.attr == "append" for c in apps) and bool(names_set) and "names" in norm(names_set[0].value) and "sorted" not in norm(names_set[0].value) and "sorted" not in norm(lp.iter)
        why = f"for {v} in {norm(lp.iter)}: get_gapped_seq({norm(gets[0].args[0]) if gets and gets[0].args else '?'}) appended"
    chk.decide(ok, "R15.6", key(m, q, "indexed_seqs[k] is the sequence called names[k]"), m.loc(loops[0] if loops else fn), why, why + ": the k-th indexed sequence is not the sequence named names[k], so distances are filed under the wrong pair of names")
    q2 = "_PairwiseDistance.run"
    f2 = m.func(q2)
    subs = {}
    for st in walk_no_nested(f2):
        if isinstance(st, ast.Assign) and isinstance(st.targets[0], ast.Name) and isinstance(st.value, ast.Subscript) and norm(st.value.value) in ("names", "self.names", "self.indexed_seqs"):
            subs[st.targets[0].id] = (norm(st.value.value), norm(st.value.slice), st)
    calls = [c for c in walk_no_nested(f2) if isinstance(c, ast.Call) and (call_name(c) or "").endswith("fill_diversity_matrix") and len(c.args) == 3]
    stores = [st for st in walk_no_nested(f2) if isinstance(st, ast.Assign) and _pair_key(st.targets[0]) and _pair_key(st.targets[0])[0] == "self._dists"]
    ok2, why2 = False, "fill_diversity_matrix call or the store of the result not found"
    if calls and stores:
        a, b = norm(calls[0].args[1]), norm(calls[0].args[2])
        _, n1, n2 = _pair_key(stores[0].targets[0])
        if a in subs and b in subs and n1 in subs and n2 in subs:
            ok2 = {subs[a][1], subs[b][1]} == {subs[n1][1], subs[n2][1]} and subs[a][1] != subs[b][1] and (subs[a][1] == subs[n1][1]) == (subs[b][1] == subs[n2][1])
            why2 = f"{a}=indexed_seqs[{subs[a][1]}], {b}=indexed_seqs[{subs[b][1]}] stored under ({n1}=names[{subs[n1][1]}], {n2}=names[{subs[n2][1]}])"
        else:
            why2 = None
    if why2 is None:
        chk.unresolved("R15.6", key(m, q2, "names and sequences share their subscripts"), m.loc(f2), "names / sequences are not plain subscripted locals")
    else:
        chk.decide(ok2, "R15.6", key(m, q2, "names and sequences share their subscripts"), m.loc(calls[0] if calls else f2), why2, why2 + ": the statistic of one pair of sequences is stored under another pair of names")
    chk.floor("R15.6", 1, "conversion loop")


def r15_7(chk):
    chk.rule("R15.7", "a calculator's constructor options survive construction: in every subclass of _PairwiseDistance no attribute that the base constructor (re)sets -- notably _func_args, which it resets to [] -- is assigned BEFORE the call of super().__init__; set earlier, the option (LogDet's use_tk_adjustment, TN93's coordinates) is wiped and the default formula is used silently")
    m = chk.repo.module(FD)
    base = m.cls("_PairwiseDistance")
    binit = base.methods.get("__init__")
    if binit is None:
        raise AnalysisError("_PairwiseDistance.__init__ not found")
    base_sets = {t.attr for st in ast.walk(binit) if isinstance(st, ast.Assign) for t in st.targets if isinstance(t, ast.Attribute) and isinstance(t.value, ast.Name) and t.value.id == "self"}
    n = 0
    for ci in chk.repo.subclasses_of(base):
        init = ci.methods.get("__init__")
        if init is None:
            continue
        sup = [i for i, st in enumerate(init.body) if any(isinstance(c, ast.Call) and isinstance(c.func, ast.Attribute) and c.func.attr == "__init__" and "super" in norm(c.func.value) for c in ast.walk(st))]
        if not sup:
            continue
        n += 1
        early = []
        for st in init.body[: sup[0]]:
            for x in ast.walk(st):
                if isinstance(x, ast.Assign):
                    for t in x.targets:
                        if isinstance(t, ast.Attribute) and isinstance(t.value, ast.Name) and t.value.id == "self" and t.attr in base_sets:
                            early.append(x)
        chk.decide(not early, "R15.7", key(ci.module, f"{ci.name}.__init__", "options set after the base constructor"), ci.module.loc(early[0] if early else init), "nothing the base constructor resets is assigned before super().__init__", f"`{norm(early[0])[:60] if early else ''}` runs before super().__init__, which assigns self.{early[0].targets[0].attr if early else ''} again: the constructor option is lost and the calculator silently uses the default")
    chk.floor("R15.7", 2, "subclasses with their own constructor")


def r15_8(chk):
    chk.rule("R15.8", "joining two neighbours never edits the partial tree it starts from: in PartialTree.join every container taken from the receiver and then edited in place (the distance matrix d, nodes, tips) is bound from an unconditional copy (self.d.copy(), self.nodes[:], list(...)) -- with several candidate joins kept (keep > 1, or dkeep) the same parent is extended more than once and must still hold its own distances")
    m = chk.repo.module("phylo/nj.py")
    q = "PartialTree.join"
    fn = m.func(q)
    binds = {}
    for st in walk_no_nested(fn):
        if isinstance(st, ast.Assign) and len(st.targets) == 1 and isinstance(st.targets[0], ast.Name) and any(isinstance(x, ast.Attribute) and isinstance(x.value, ast.Name) and x.value.id == "self" for x in ast.walk(st.value)):
            binds.setdefault(st.targets[0].id, st)  # first binding
    edited = set()
    for x in walk_no_nested(fn):
        if isinstance(x, (ast.Assign, ast.AugAssign)):
            for t in (x.targets if isinstance(x, ast.Assign) else [x.target]):
                if isinstance(t, ast.Subscript):
                    b = t
                    while isinstance(b, ast.Subscript):
                        b = b.value
                    if isinstance(b, ast.Name):
                        edited.add(b.id)
        if isinstance(x, ast.Call) and isinstance(x.func, ast.Attribute) and isinstance(x.func.value, ast.Name) and x.func.attr in ("pop", "append", "remove", "insert", "sort", "reverse", "fill", "extend"):
            edited.add(x.func.value.id)
    n = 0
    for nm in sorted(edited & set(binds)):
        st = binds[nm]
        v = st.value
        copying = (isinstance(v, ast.Call) and ((isinstance(v.func, ast.Attribute) and v.func.attr in ("copy", "astype", "tolist")) or (call_name(v) or "").split(".")[-1] in ("list", "array", "deepcopy", "copy", "set", "dict", "tuple"))) or (isinstance(v, ast.Subscript) and isinstance(v.slice, ast.Slice) and v.slice.lower is None and v.slice.upper is None and v.slice.step is None)
        n += 1
        chk.decide(copying, "R15.8", key(m, q, f"{nm} is a private copy"), m.loc(st), f"`{norm(st)}`", f"`{norm(st)[:70]}` can be the receiver's own {nm}, which join() then edits in place: a partial tree that is extended by a second pair (gnj with keep > 1 or dkeep >= 1) has had its distances overwritten by the first join")
    chk.floor("R15.8", 3, "d, nodes, tips")


def r15_9(chk):
    chk.rule("R15.9", "a distance of zero is a distance: in phylo/util.py a value looked up in a distance dict (bound from `.get(...)`) is never selected by truth value (`v1 or v2`, `if v:`) -- identical sequences are at distance 0.0, and `v1 or v2` answers None for a one-sided (a, b): 0.0, which becomes NaN in the matrix and makes neighbour joining return all-zero branch lengths without any error")
    m = chk.repo.module("phylo/util.py")
    n = 0
    for q, fn in m.all_functions():
        looked = {st.targets[0].id for st in walk_no_nested(fn) if isinstance(st, ast.Assign) and isinstance(st.targets[0], ast.Name) and isinstance(st.value, ast.Call) and isinstance(st.value.func, ast.Attribute) and st.value.func.attr == "get"}
        if not looked:
            continue
        n += 1
        bad = []
        for x in walk_no_nested(fn):
            if isinstance(x, ast.BoolOp) and any(isinstance(v, ast.Name) and v.id in looked for v in x.values[:-1] if not isinstance(v, ast.Compare)):
                # `v1 is None or v2 is None` are Compare nodes and fine; bare names in and/or are truth tests
                bad.append(x)
            if isinstance(x, (ast.If, ast.IfExp)) and isinstance(x.test, ast.Name) and x.test.id in looked:
                bad.append(x.test)
            if isinstance(x, ast.UnaryOp) and isinstance(x.op, ast.Not) and isinstance(x.operand, ast.Name) and x.operand.id in looked:
                bad.append(x)
        chk.decide(not bad, "R15.9", key(m, q, "looked-up distances selected by `is None`"), m.loc(bad[0] if bad else fn), f"{sorted(looked)} only compared with None / each other", f"`{norm(bad[0])[:50] if bad else ''}` chooses by truth value: a distance of 0.0 counts as missing")
    chk.floor("R15.9", 1, "lookup_symmetric_dict")


def r15_10(chk):
    chk.rule("R15.10", "reading a distance matrix does not change it: DistanceMatrix.__getitem__ assigns no attribute of the receiver or of its template (the template is shared state: after one slice the original matrix's names are arrays and quick_tree() on a perfectly additive matrix raises)")
    m = chk.repo.module(FD)
    q = "DistanceMatrix.__getitem__"
    fn = m.func(q)
    bad = []
    for st in walk_no_nested(fn):
        if isinstance(st, (ast.Assign, ast.AugAssign)):
            for t in (st.targets if isinstance(st, ast.Assign) else [st.target]):
                b = t
                while isinstance(b, (ast.Attribute, ast.Subscript)):
                    b = b.value
                if isinstance(t, (ast.Attribute, ast.Subscript)) and isinstance(b, ast.Name) and b.id == "self":
                    bad.append(st)
    chk.decide(not bad, "R15.10", key(m, q, "no write to the receiver"), m.loc(bad[0] if bad else fn), "no attribute of self is assigned", f"`{norm(bad[0])[:70] if bad else ''}` edits the matrix being read: dm[['a', 'b']] leaves dm.template.names as numpy arrays, and dm.quick_tree() then raises ValueError")
    chk.floor("R15.10", 1, "DistanceMatrix.__getitem__")


def r15_11(chk):
    chk.rule("R15.11", "expanding the duplicates reads from the table it is filling: in _PairwiseDistance._expand the mapping asked for the alias's distance (`<map>.get((alias, name))`) is the same mapping the new (add, name) entries are stored into -- the entry for a pair of two redundant sequences only exists once the first of them has been expanded, so reading from an untouched copy of the input leaves None / NaN between any two duplicates")
    m = chk.repo.module(FD)
    q = "_PairwiseDistance._expand"
    fn = m.func(q)
    stores = {pk[0] for st in walk_no_nested(fn) if isinstance(st, ast.Assign) for t in st.targets for pk in [_pair_key(t)] if pk}
    reads = {norm(c.func.value) for c in walk_no_nested(fn) if isinstance(c, ast.Call) and isinstance(c.func, ast.Attribute) and c.func.attr == "get" and c.args and isinstance(c.args[0], ast.Tuple)} | {norm(s_.value) for s_ in walk_no_nested(fn) if isinstance(s_, ast.Subscript) and isinstance(s_.ctx, ast.Load) and isinstance(s_.slice, ast.Tuple) and len(s_.slice.elts) == 2}
    rets = {norm(r.value) for r in walk_no_nested(fn) if isinstance(r, ast.Return) and r.value is not None}
    k = key(m, q, "reads and writes one table")
    if not stores or not reads:
        chk.unresolved("R15.11", k, m.loc(fn), "pair-keyed reads / stores not found")
        chk.floor("R15.11", 0, "")
        return
    ok = reads <= stores and stores <= rets | stores and any(s_ in rets for s_ in stores)
    chk.decide(ok, "R15.11", k, m.loc(fn), f"reads {sorted(reads)}, stores {sorted(stores)}, returns {sorted(rets)}", f"alias distances are read from {sorted(reads)} but the expanded entries are stored into {sorted(stores)}: with two or more redundant sequences the distance between two of them is never found (None, NaN in the matrix)")
    chk.floor("R15.11", 1, "_expand")


def r15_12(chk):
    chk.rule("R15.12", "'is a duplicate of' must be an equivalence for the shortcut to be sound: run() skips every later comparison of a sequence it has set aside and _expand copies the retained sequence's distances to it, so the test that sets a sequence aside has to establish that the two sequences are the same everywhere (a comparison of the indexed sequences themselves), not merely that they show no difference among the columns valid in BOTH -- with gaps or ambiguity codes that relation is not transitive ('AC--' ~ 'ACGT' and 'AC--' ~ 'ACGA', yet ACGT and ACGA differ) and the result depends on the order of the sequences")
    m = chk.repo.module(FD)
    q = "_PairwiseDistance.run"
    fn = m.func(q)
    marks = [i for i in walk_no_nested(fn) if isinstance(i, ast.If) and any(isinstance(c, ast.Call) and isinstance(c.func, ast.Attribute) and c.func.attr in ("update", "add", "append") and norm(c.func.value) in ("dupes", "duped[i]") for st in i.body for c in ast.walk(st))]
    k = key(m, q, "duplicates established on the sequences themselves")
    if not marks:
        chk.ok("R15.12", k, m.loc(fn), "no duplicate shortcut", nontrivial=False)
        chk.floor("R15.12", 0, "")
        return
    seqs = {st.targets[0].id for st in walk_no_nested(fn) if isinstance(st, ast.Assign) and isinstance(st.targets[0], ast.Name) and "indexed_seqs" in norm(st.value)}
    t = marks[0].test
    names = {x.id for x in ast.walk(t) if isinstance(x, ast.Name)}
    chk.decide(len(names & seqs) >= 2, "R15.12", k, m.loc(marks[0]), f"test compares {sorted(names & seqs)}", f"a sequence is set aside under `{norm(t)}` alone -- 'no difference among jointly valid columns': for {{'i': 'AC--', 'j': 'ACGT', 'k': 'ACGA'}} both j and k become duplicates of i and d(j, k) is reported as 0.0 instead of 0.25 (0.25 when i is listed last)")
    chk.floor("R15.12", 1, "duplicate shortcut")


def r15_13(chk):
    chk.rule("R15.13", "UPGMA accepts every ultrametric matrix, integer-valued ones included: the array whose diagonal inputs_from_dict_array overwrites IN PLACE with the float BIG_NUM is a float array -- upgma() builds its DictArray with dtype=float (or the helper converts / adds out of place); an int64 array cannot take the in-place float addition and upgma({('a','b'): 2, ('a','c'): 6, ('b','c'): 6}) raises")
    m = chk.repo.module("cluster/UPGMA.py")
    h = m.func("inputs_from_dict_array")
    inplace = [st for st in walk_no_nested(h) if isinstance(st, ast.AugAssign) and "array" in norm(st.target)]
    k = key(m, "upgma", "distances are floats before the in-place diagonal")
    if not inplace:
        chk.ok("R15.13", k, m.loc(h), "no in-place arithmetic on the caller's array", nontrivial=False)
        chk.floor("R15.13", 0, "")
        return
    conv = any(isinstance(c, ast.Call) and isinstance(c.func, ast.Attribute) and c.func.attr == "astype" for c in walk_no_nested(h))
    u = m.func("upgma")
    mk = [c for c in walk_no_nested(u) if isinstance(c, ast.Call) and call_name(c) == "DictArray"]
    typed = any(kw.arg == "dtype" and norm(kw.value) in ("float", "numpy.float64", "float64") for c in mk for kw in c.keywords)
    chk.decide(conv or typed, "R15.13", k, m.loc(mk[0] if mk else u), "DictArray(..., dtype=float)" if typed else "converted with astype", f"`{norm(inplace[0])[:60]}` adds a float in place to an array whose dtype follows the caller's values: all-integer distances give int64 and the addition raises UFuncTypeError")
    chk.floor("R15.13", 1, "upgma")


def run(chk):
    r15_1(chk)
    r15_13(chk)
    r15_12(chk)
    r15_11(chk)
    r15_9(chk)
    r15_10(chk)
    r15_7(chk)
    r15_8(chk)
    r15_6(chk)
    r15_2(chk)
    r15_3(chk)
    r15_4(chk)
    r15_5(chk)
    chk.assume("not decided: TN93 / paralinear / LogDet against their published formulas, neighbour joining on additive and UPGMA on ultrametric matrices (numerical statements with no structural handle)")
    chk.assume("a DistanceMatrix built from a dict of off-diagonal pairs has a zero diagonal")
