"""L7 finite decision tables and L8 sibling parity helpers.

(a) weak orderings of k symbolic integers (exhaustive order types)
(b) reach-conditions of a call as a boolean formula over option parameters,
    compared on the full truth table
(c) keyword pass-through of a call
"""

from __future__ import annotations

import ast
import itertools

from .index import norm, params_of, strip_docstring

# ---------------------------------------------------------------------------
# (a) order types


def weak_orderings(names):
    """yield dicts name->rank for every weak ordering (ties allowed) of names"""
    names = list(names)
    n = len(names)

    def rec(remaining, rank, acc):
        if not remaining:
            yield dict(acc)
            return
        # choose the non-empty set of elements tied at this rank
        rem = list(remaining)
        for r in range(1, len(rem) + 1):
            for group in itertools.combinations(rem, r):
                rest = [x for x in rem if x not in group]
                yield from rec(rest, rank + 1, acc + [(g, rank) for g in group])

    yield from rec(names, 0, [])


# ---------------------------------------------------------------------------
# (b) boolean formulas
# formula := ("const", bool) | ("atom", name) | ("not", f) | ("and", [f..]) | ("or", [f..])

TRUE = ("const", True)
FALSE = ("const", False)


def f_and(*fs):
    out = []
    for f in fs:
        if f == TRUE:
            continue
        if f == FALSE:
            return FALSE
        if f[0] == "and":
            out.extend(f[1])
        else:
            out.append(f)
    if not out:
        return TRUE
    return out[0] if len(out) == 1 else ("and", out)


def f_or(*fs):
    out = []
    for f in fs:
        if f == FALSE:
            continue
        if f == TRUE:
            return TRUE
        if f[0] == "or":
            out.extend(f[1])
        else:
            out.append(f)
    if not out:
        return FALSE
    return out[0] if len(out) == 1 else ("or", out)


def f_not(f):
    if f == TRUE:
        return FALSE
    if f == FALSE:
        return TRUE
    if f[0] == "not":
        return f[1]
    return ("not", f)


def expr_to_formula(e, options):
    """boolean expression -> formula; atoms are option parameter names when the
    expression is a bare Name in `options`, otherwise opaque atoms '?<source>'"""
    if isinstance(e, ast.BoolOp):
        parts = [expr_to_formula(v, options) for v in e.values]
        return f_and(*parts) if isinstance(e.op, ast.And) else f_or(*parts)
    if isinstance(e, ast.UnaryOp) and isinstance(e.op, ast.Not):
        return f_not(expr_to_formula(e.operand, options))
    if isinstance(e, ast.Constant) and isinstance(e.value, bool):
        return TRUE if e.value else FALSE
    if isinstance(e, ast.Name) and e.id in options:
        return ("atom", e.id)
    if isinstance(e, ast.Compare) and len(e.ops) == 1 and isinstance(e.left, ast.Name) and e.left.id in options:
        c = e.comparators[0]
        if isinstance(c, ast.Constant) and isinstance(c.value, bool) and isinstance(e.ops[0], (ast.Is, ast.Eq, ast.IsNot, ast.NotEq)):
            a = ("atom", e.left.id)
            pos = isinstance(e.ops[0], (ast.Is, ast.Eq)) == c.value
            return a if pos else f_not(a)
    return ("atom", "?" + norm(e))


def atoms(f, acc=None):
    acc = set() if acc is None else acc
    if f[0] == "atom":
        acc.add(f[1])
    elif f[0] == "not":
        atoms(f[1], acc)
    elif f[0] in ("and", "or"):
        for g in f[1]:
            atoms(g, acc)
    return acc


def evaluate(f, env):
    k = f[0]
    if k == "const":
        return f[1]
    if k == "atom":
        return env[f[1]]
    if k == "not":
        return not evaluate(f[1], env)
    if k == "and":
        return all(evaluate(g, env) for g in f[1])
    if k == "or":
        return any(evaluate(g, env) for g in f[1])
    raise ValueError(k)


def truth_table(f, options):
    """{assignment tuple over sorted(options): possibly-true}; opaque atoms are
    existentially quantified (reachable for some value of what we cannot see)"""
    opts = sorted(options)
    opaque = sorted(a for a in atoms(f) if a.startswith("?"))
    table = {}
    for vals in itertools.product([False, True], repeat=len(opts)):
        env = dict(zip(opts, vals))
        res = False
        for ov in itertools.product([False, True], repeat=len(opaque)):
            env.update(zip(opaque, ov))
            if evaluate(f, env):
                res = True
                break
        table[vals] = res
    return opts, table


def show(f):
    k = f[0]
    if k == "const":
        return str(f[1])
    if k == "atom":
        return f[1]
    if k == "not":
        return "not " + show(f[1]) if f[1][0] in ("atom", "const") else f"not ({show(f[1])})"
    sep = " and " if k == "and" else " or "
    return "(" + sep.join(show(g) for g in f[1]) + ")"


def _always_exits(body):
    """True when the statement list cannot complete normally (ends in return /
    raise / continue / break on every branch)"""
    if not body:
        return False
    last = body[-1]
    if isinstance(last, (ast.Return, ast.Raise, ast.Continue, ast.Break)):
        return True
    if isinstance(last, ast.If):
        return _always_exits(last.body) and _always_exits(last.orelse)
    return False


def reach_conditions(fn, is_target, options):
    """for every node n in fn (not nested defs) with is_target(n): the condition,
    over the If structure of fn, under which control reaches it.  Guards are the
    enclosing `if` tests plus the negation of preceding sibling `if`s whose body
    always exits.  Loops/try/with bodies are traversed transparently."""
    found = []

    def contains_targets(node, cond):
        for sub in ast.walk(node):
            if is_target(sub):
                found.append((sub, cond))

    def walk(body, cond):
        for st in body:
            if isinstance(st, (ast.FunctionDef, ast.AsyncFunctionDef, ast.ClassDef)):
                continue
            if isinstance(st, ast.If):
                c = expr_to_formula(st.test, options)
                contains_targets(st.test, cond)
                walk(st.body, f_and(cond, c))
                walk(st.orelse, f_and(cond, f_not(c)))
                if _always_exits(st.body) and not _always_exits(st.orelse):
                    cond = f_and(cond, f_not(c))
                elif _always_exits(st.orelse) and st.orelse and not _always_exits(st.body):
                    cond = f_and(cond, c)
            elif isinstance(st, (ast.For, ast.AsyncFor, ast.While)):
                contains_targets(st.iter if hasattr(st, "iter") else st.test, cond)
                walk(st.body, cond)
                walk(st.orelse, cond)
            elif isinstance(st, ast.Try):
                walk(st.body, cond)
                for h in st.handlers:
                    walk(h.body, cond)
                walk(st.orelse, cond)
                walk(st.finalbody, cond)
            elif isinstance(st, (ast.With, ast.AsyncWith)):
                for it in st.items:
                    contains_targets(it.context_expr, cond)
                walk(st.body, cond)
            else:
                # conditional expressions: a if c else b
                handled = False
                for sub in ast.walk(st):
                    if isinstance(sub, ast.IfExp):
                        c = expr_to_formula(sub.test, options)
                        contains_targets(sub.body, f_and(cond, c))
                        contains_targets(sub.orelse, f_and(cond, f_not(c)))
                        contains_targets(sub.test, cond)
                        handled = True
                if not handled:
                    contains_targets(st, cond)
                else:
                    # targets outside any IfExp in this statement
                    inside = set()
                    for sub in ast.walk(st):
                        if isinstance(sub, ast.IfExp):
                            for x in ast.walk(sub):
                                inside.add(id(x))
                    for sub in ast.walk(st):
                        if id(sub) not in inside and is_target(sub):
                            found.append((sub, cond))

    walk(strip_docstring(fn.body), TRUE)
    return found


# ---------------------------------------------------------------------------
# (c) keyword pass-through


def call_keyword_sources(call: ast.Call, callee_params=None):
    """name -> normalised source expression for each keyword (and, when the callee's
    parameter list is known, each positional) argument of a call"""
    out = {}
    if callee_params:
        ps = [p for p in callee_params if p not in ("self", "cls")]
        for i, a in enumerate(call.args):
            if i < len(ps) and not isinstance(a, ast.Starred):
                out[ps[i]] = norm(a)
    for kw in call.keywords:
        if kw.arg is not None:
            out[kw.arg] = norm(kw.value)
    return out
