"""L3: per-function statement-level control-flow graph with exceptional edges.

Nodes are simple statements and the headers of compound statements.  Edges are
normal ("n") or exceptional ("x").  Any statement that contains a call, raise,
assert, yield, await or import may leave exceptionally to the innermost handler
dispatch / `finally` copy / `with`-exit / the function's exceptional exit RAISE.
`finally` bodies (and the implicit `__exit__` of `with`) are duplicated per
continuation (normal, exception, return, break, continue) so that every path keeps
its own continuation.

Queries
  dominated_by(S, P)        every path ENTRY -> S passes a node satisfying P
  always_followed_by(S, P)  every path from S's normal successors to an exit
                            (EXIT, and RAISE when exceptional=True) passes P
  witness paths are returned for diagnostics.
"""

from __future__ import annotations

import ast
from collections import deque

CATCH_ALL = {"Exception", "BaseException"}


class Node:
    __slots__ = ("id", "kind", "ast", "tag", "succ", "pred", "label")

    def __init__(self, nid, kind, node=None, tag="", label=""):
        self.id, self.kind, self.ast, self.tag = nid, kind, node, tag
        self.succ = []  # (node, "n"|"x")
        self.pred = []
        self.label = label

    @property
    def lineno(self):
        return getattr(self.ast, "lineno", 0)

    def __repr__(self):
        return f"<{self.kind}{'/' + self.tag if self.tag else ''} L{self.lineno} {self.label}>"


def may_raise(stmt_or_expr) -> bool:
    for n in _walk_shallow(stmt_or_expr):
        if isinstance(n, (ast.Call, ast.Raise, ast.Assert, ast.Yield, ast.YieldFrom, ast.Await, ast.Import, ast.ImportFrom)):
            return True
    return False


def _walk_shallow(node):
    """walk without entering nested function/class bodies or lambdas"""
    stack = [node]
    while stack:
        n = stack.pop()
        yield n
        for c in ast.iter_child_nodes(n):
            if isinstance(c, (ast.FunctionDef, ast.AsyncFunctionDef, ast.ClassDef, ast.Lambda)):
                continue
            stack.append(c)


class Ctx:
    __slots__ = ("exc", "ret", "brk", "cont")

    def __init__(self, exc, ret, brk=None, cont=None):
        self.exc, self.ret, self.brk, self.cont = exc, ret, brk, cont

    def replace(self, **kw):
        c = Ctx(self.exc, self.ret, self.brk, self.cont)
        for k, v in kw.items():
            setattr(c, k, v)
        return c


class CFG:
    def __init__(self, fn: ast.FunctionDef):
        self.fn = fn
        self.nodes: list[Node] = []
        self.entry = self._new("entry")
        self.exit = self._new("exit")
        self.raise_ = self._new("raise")
        ctx = Ctx(exc=lambda: self.raise_, ret=lambda: self.exit)
        first = self._seq(fn.body, lambda: self.exit, ctx)
        self._edge(self.entry, first(), "n")

    # -- construction --------------------------------------------------------
    def _new(self, kind, node=None, tag="", label=""):
        n = Node(len(self.nodes), kind, node, tag, label)
        self.nodes.append(n)
        return n

    def _edge(self, a, b, kind):
        if (b, kind) not in a.succ:
            a.succ.append((b, kind))
            b.pred.append((a, kind))

    @staticmethod
    def _memo(thunk):
        cache = []

        def get():
            if not cache:
                cache.append(thunk())
            return cache[0]

        return get

    def _seq(self, body, nxt, ctx, tag=""):
        """returns a thunk giving the first node of the sequence; nxt is a thunk
        giving the node control goes to after the sequence"""
        if not body:
            return nxt
        thunks = [None] * (len(body) + 1)
        thunks[len(body)] = nxt
        for i in range(len(body) - 1, -1, -1):
            thunks[i] = self._memo(lambda i=i: self._stmt(body[i], thunks[i + 1], ctx, tag))
        return thunks[0]

    def _simple(self, st, nxt, ctx, kind="stmt", tag="", expr=None):
        n = self._new(kind, st, tag)
        if may_raise(expr if expr is not None else st):
            self._edge(n, ctx.exc(), "x")
        return n

    def _stmt(self, st, nxt, ctx, tag):
        if isinstance(st, (ast.FunctionDef, ast.AsyncFunctionDef, ast.ClassDef)):
            n = self._new("def", st, tag)
            self._edge(n, nxt(), "n")
            return n
        if isinstance(st, ast.Return):
            n = self._simple(st, nxt, ctx, "return", tag)
            self._edge(n, ctx.ret(), "n")
            return n
        if isinstance(st, ast.Raise):
            n = self._new("raise-stmt", st, tag)
            self._edge(n, ctx.exc(), "x")
            return n
        if isinstance(st, ast.Break):
            n = self._new("break", st, tag)
            self._edge(n, ctx.brk(), "n")
            return n
        if isinstance(st, ast.Continue):
            n = self._new("continue", st, tag)
            self._edge(n, ctx.cont(), "n")
            return n
        if isinstance(st, ast.If):
            n = self._simple(st, nxt, ctx, "if", tag, expr=st.test)
            self._edge(n, self._seq(st.body, nxt, ctx, tag)(), "n")
            self._edge(n, self._seq(st.orelse, nxt, ctx, tag)(), "n")
            return n
        if isinstance(st, (ast.For, ast.AsyncFor, ast.While)):
            head = self._new("loop", st, tag)
            hexpr = st.iter if hasattr(st, "iter") else st.test
            if may_raise(hexpr) or isinstance(st, (ast.For, ast.AsyncFor)):
                self._edge(head, ctx.exc(), "x")
            after_else = self._seq(st.orelse, nxt, ctx, tag)
            lctx = ctx.replace(brk=nxt, cont=lambda: head)
            self._edge(head, self._seq(st.body, lambda: head, lctx, tag)(), "n")
            infinite = isinstance(st, ast.While) and isinstance(st.test, ast.Constant) and st.test.value is True
            if not infinite:
                self._edge(head, after_else(), "n")
            return head
        if isinstance(st, (ast.With, ast.AsyncWith)):
            enter = self._new("with-enter", st, tag)
            self._edge(enter, ctx.exc(), "x")
            fin = [_WithExit(st)]
            return self._protected(enter, st.body, fin, nxt, ctx, tag, enter_first=True)
        if isinstance(st, ast.Try) or (hasattr(ast, "TryStar") and isinstance(st, ast.TryStar)):
            return self._try(st, nxt, ctx, tag)
        if hasattr(ast, "Match") and isinstance(st, ast.Match):
            n = self._simple(st, nxt, ctx, "match", tag, expr=st.subject)
            for case in st.cases:
                self._edge(n, self._seq(case.body, nxt, ctx, tag)(), "n")
            self._edge(n, nxt(), "n")
            return n
        n = self._simple(st, nxt, ctx, "stmt", tag)
        self._edge(n, nxt(), "n")
        return n

    def _finally_copy(self, finalbody, cont, ctx, tag):
        """a copy of the finally body that continues to cont() when it completes"""
        return self._memo(lambda: self._seq(finalbody, cont, ctx, tag)())

    def _protected(self, head, body, finalbody, nxt, ctx, tag, enter_first=False):
        """body protected by finalbody (try/finally or with)"""
        fin_n = self._finally_copy(finalbody, nxt, ctx, "finally-n")
        fin_x = self._finally_copy(finalbody, ctx.exc, ctx, "finally-x")
        fin_r = self._finally_copy(finalbody, ctx.ret, ctx, "finally-r")
        fin_b = self._finally_copy(finalbody, ctx.brk, ctx, "finally-b") if ctx.brk else None
        fin_c = self._finally_copy(finalbody, ctx.cont, ctx, "finally-c") if ctx.cont else None
        bctx = Ctx(exc=fin_x, ret=fin_r, brk=fin_b, cont=fin_c)
        first = self._seq(body, fin_n, bctx, tag)
        if head is not None:
            self._edge(head, first(), "n")
            return head
        return first()

    def _try(self, st, nxt, ctx, tag):
        if st.finalbody:
            # try/except/else wrapped in the finally protection
            inner = ast.Try(body=st.body, handlers=st.handlers, orelse=st.orelse, finalbody=[])
            ast.copy_location(inner, st)
            if st.handlers or st.orelse:
                body = [inner]
            else:
                body = st.body
            return self._protected(None, body, st.finalbody, nxt, ctx, tag)
        # try/except[/else]
        dispatch = self._new("except-dispatch", st, tag)
        catches_all = False
        for h in st.handlers:
            hn = self._new("handler", h, tag, label=ast.unparse(h.type) if h.type else "bare")
            self._edge(dispatch, hn, "n")
            self._edge(hn, self._seq(h.body, nxt, ctx, tag)(), "n")
            if h.type is None:
                catches_all = True
            else:
                names = [h.type] if not isinstance(h.type, ast.Tuple) else list(h.type.elts)
                for t in names:
                    nm = t.id if isinstance(t, ast.Name) else t.attr if isinstance(t, ast.Attribute) else None
                    if nm in CATCH_ALL:
                        catches_all = True
        if not catches_all:
            self._edge(dispatch, ctx.exc(), "x")
        bctx = ctx.replace(exc=lambda: dispatch)
        after_else = self._seq(st.orelse, nxt, ctx, tag)
        first = self._seq(st.body, after_else, bctx, tag)
        return first()

    # -- queries -------------------------------------------------------------
    def find(self, pred):
        return [n for n in self.nodes if n.ast is not None and pred(n)]

    def stmt_nodes(self, stmt_ast):
        return [n for n in self.nodes if n.ast is stmt_ast]

    def nodes_containing(self, pred_ast):
        """nodes whose own expression part (not nested statement bodies) contains an
        ast node satisfying pred_ast"""
        out = []
        for n in self.nodes:
            if n.ast is None or n.kind in ("def", "except-dispatch", "handler"):
                continue
            for sub in own_exprs(n):
                if any(pred_ast(x) for x in _walk_shallow(sub)):
                    out.append(n)
                    break
        return out

    def reachable(self, starts, blocked=(), kinds=("n", "x")):
        blocked = set(id(b) for b in blocked)
        seen = {}
        dq = deque()
        for s in starts:
            if id(s) not in blocked and id(s) not in seen:
                seen[id(s)] = (s, None)
                dq.append(s)
        while dq:
            a = dq.popleft()
            for b, k in a.succ:
                if k in kinds and id(b) not in blocked and id(b) not in seen:
                    seen[id(b)] = (b, a)
                    dq.append(b)
        return seen

    def _path(self, seen, target):
        path = []
        cur = target
        while cur is not None:
            path.append(cur)
            cur = seen[id(cur)][1]
        return list(reversed(path))

    def dominated_by(self, s: Node, pnodes, kinds=("n", "x")):
        """(True, None) when every path entry->s passes a node of pnodes, else
        (False, witness path)"""
        if s in pnodes:
            return True, None
        seen = self.reachable([self.entry], blocked=pnodes, kinds=kinds)
        if id(s) in seen:
            return False, self._path(seen, s)
        return True, None

    def always_followed_by(self, s: Node, pnodes, exceptional=True, from_kinds=("n",)):
        """every path from s's successors (of from_kinds) to EXIT (and RAISE when
        exceptional) passes a node of pnodes"""
        starts = [b for b, k in s.succ if k in from_kinds]
        kinds = ("n", "x") if exceptional else ("n",)
        seen = self.reachable(starts, blocked=pnodes, kinds=kinds)
        exits = [self.exit] + ([self.raise_] if exceptional else [])
        for e in exits:
            if id(e) in seen:
                return False, [s] + self._path(seen, e)
        return True, None

    def show_path(self, path, limit=12):
        out = []
        for n in path:
            if n.kind in ("entry", "exit", "raise"):
                out.append(n.kind.upper())
            else:
                out.append(f"L{n.lineno}:{n.kind}{'/' + n.tag if n.tag else ''}")
        if len(out) > limit:
            out = out[: limit // 2] + ["..."] + out[-limit // 2 :]
        return " -> ".join(out)


class _WithExit(ast.stmt):
    """synthetic statement standing for the implicit __exit__ of a with block"""

    _fields = ()

    def __init__(self, with_stmt):
        super().__init__()
        self.with_stmt = with_stmt
        self.lineno = with_stmt.lineno
        self.col_offset = with_stmt.col_offset
        self.end_lineno = getattr(with_stmt, "end_lineno", with_stmt.lineno)


def own_exprs(n: Node):
    """the expression parts evaluated by the node itself"""
    a = n.ast
    if isinstance(a, _WithExit):
        return []
    if n.kind == "if":
        return [a.test]
    if n.kind == "loop":
        return [a.iter] if hasattr(a, "iter") else [a.test]
    if n.kind == "with-enter":
        return [i.context_expr for i in a.items]
    if n.kind == "match":
        return [a.subject]
    if n.kind in ("stmt", "return", "raise-stmt"):
        return [a]
    return []


def is_with_exit(n: Node):
    return isinstance(n.ast, _WithExit)


def build(fn) -> CFG:
    return CFG(fn)
