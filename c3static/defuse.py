"""L4 def-use helpers: derived-name closure (taint), local alias chains, reaching
definitions over the L3 CFG, and small utilities on assignments."""

from __future__ import annotations

import ast

from .cfg import CFG, own_exprs
from .index import norm, walk_no_nested


def names_in(expr):
    return {n.id for n in ast.walk(expr) if isinstance(n, ast.Name)}


def assigned_names(target):
    out = set()
    for n in ast.walk(target):
        if isinstance(n, ast.Name) and isinstance(n.ctx, (ast.Store, ast.Del)):
            out.add(n.id)
    return out


def assignments(fn):
    """yield (targets-expr-list, value-expr, stmt) for every binding statement in fn
    (Assign, AnnAssign, AugAssign, For targets, With-as, walrus, comprehensions are
    not included)"""
    for st in walk_no_nested(fn):
        if isinstance(st, ast.Assign):
            yield st.targets, st.value, st
        elif isinstance(st, ast.AnnAssign) and st.value is not None:
            yield [st.target], st.value, st
        elif isinstance(st, ast.AugAssign):
            yield [st.target], st.value, st
        elif isinstance(st, (ast.For, ast.AsyncFor)):
            yield [st.target], st.iter, st
        elif isinstance(st, (ast.With, ast.AsyncWith)):
            for it in st.items:
                if it.optional_vars is not None:
                    yield [it.optional_vars], it.context_expr, st
        elif isinstance(st, ast.NamedExpr):
            yield [st.target], st.value, st


def derived_names(fn, seeds, seed_exprs=()):
    """flow-insensitive closure: local names whose value derives from any seed
    name (or from an expression whose normalised text is in seed_exprs)"""
    derived = set(seeds)
    seed_exprs = set(seed_exprs)
    changed = True
    binds = list(assignments(fn))
    while changed:
        changed = False
        for targets, value, _ in binds:
            tainted = bool(names_in(value) & derived) or any(norm(n) in seed_exprs for n in ast.walk(value))
            if tainted:
                for t in targets:
                    for n in assigned_names(t):
                        if n not in derived:
                            derived.add(n)
                            changed = True
    return derived


def expr_derives(expr, derived, seed_exprs=()):
    if names_in(expr) & set(derived):
        return True
    return any(norm(n) in set(seed_exprs) for n in ast.walk(expr))


def aliases_of(fn, expr_text):
    """local names bound (directly) to the expression with this normalised text,
    transitively through plain name copies"""
    al = set()
    changed = True
    binds = list(assignments(fn))
    while changed:
        changed = False
        for targets, value, st in binds:
            if isinstance(st, (ast.AugAssign, ast.For, ast.AsyncFor)):
                continue
            v = norm(value)
            if v == expr_text or (isinstance(value, ast.Name) and value.id in al):
                for t in targets:
                    if isinstance(t, ast.Name) and t.id not in al:
                        al.add(t.id)
                        changed = True
    return al


# ---------------------------------------------------------------------------
# reaching definitions on the CFG


def _defs_of_node(n):
    """names (re)bound by a CFG node"""
    a = n.ast
    out = set()
    if n.kind == "stmt":
        if isinstance(a, ast.Assign):
            for t in a.targets:
                out |= assigned_names(t)
        elif isinstance(a, (ast.AnnAssign, ast.AugAssign)):
            out |= assigned_names(a.target)
        elif isinstance(a, (ast.Import, ast.ImportFrom)):
            for al in a.names:
                out.add((al.asname or al.name).split(".")[0])
        elif isinstance(a, ast.Delete):
            for t in a.targets:
                out |= assigned_names(t)
    elif n.kind == "loop" and hasattr(a, "target"):
        out |= assigned_names(a.target)
    elif n.kind == "with-enter":
        for it in a.items:
            if it.optional_vars is not None:
                out |= assigned_names(it.optional_vars)
    elif n.kind == "handler" and getattr(a, "name", None):
        out.add(a.name)
    elif n.kind == "def":
        out.add(a.name)
    for e in own_exprs(n):
        for sub in ast.walk(e):
            if isinstance(sub, ast.NamedExpr):
                out |= assigned_names(sub.target)
    return out


def reaching_definitions(g: CFG, kinds=("n", "x")):
    """IN sets: node id -> {name: {def node ids}}; parameters are defined at entry
    (def id = entry.id)"""
    params = set()
    a = g.fn.args
    for p in a.posonlyargs + a.args + a.kwonlyargs:
        params.add(p.arg)
    if a.vararg:
        params.add(a.vararg.arg)
    if a.kwarg:
        params.add(a.kwarg.arg)
    defs = {n.id: _defs_of_node(n) for n in g.nodes}
    IN = {n.id: {} for n in g.nodes}
    OUT = {n.id: {} for n in g.nodes}
    OUT[g.entry.id] = {p: {g.entry.id} for p in params}
    work = list(g.nodes)
    while work:
        n = work.pop()
        if n is g.entry:
            new_in = {}
        else:
            new_in = {}
            for p, k in n.pred:
                if k not in kinds:
                    continue
                # an exceptional edge leaves before the node's own definition completes
                src = IN[p.id] if k == "x" else OUT[p.id]
                if k == "x":
                    # the raising statement may or may not have bound its targets
                    src = _merge(IN[p.id], OUT[p.id])
                for name, ds in src.items():
                    new_in.setdefault(name, set()).update(ds)
        IN[n.id] = new_in
        if n is g.entry:
            new_out = OUT[g.entry.id]
        else:
            new_out = {k: set(v) for k, v in new_in.items()}
            for name in defs[n.id]:
                new_out[name] = {n.id}
        if new_out != OUT[n.id] or n is g.entry:
            changed = new_out != OUT[n.id]
            OUT[n.id] = new_out
            if changed or n is g.entry:
                for s, k in n.succ:
                    if s not in work:
                        work.append(s)
    return IN, OUT


def _merge(a, b):
    out = {k: set(v) for k, v in a.items()}
    for k, v in b.items():
        out.setdefault(k, set()).update(v)
    return out
