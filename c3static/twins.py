"""L6 twins: normalised AST comparison of paired (sibling) functions.

Normalisation removes what cannot change behaviour: docstrings, annotations,
decorator argument text of deprecation shims, `x += k` vs `x = x + k` spelling,
`pass`/`...` bodies, and string quote style (AST level).  The diff reported is the
list of normalised statements present on one side only."""

from __future__ import annotations

import ast
import copy
import difflib


class _Norm(ast.NodeTransformer):
    def __init__(self, rename=None):
        self.rename = rename or {}

    def visit_FunctionDef(self, node):
        node = copy.copy(node)
        node.returns = None
        node.decorator_list = [d for d in node.decorator_list if not _is_shim(d)]
        node.args = self.visit(node.args)
        body = list(node.body)
        if body and isinstance(body[0], ast.Expr) and isinstance(body[0].value, ast.Constant) and isinstance(body[0].value.value, str):
            body = body[1:]
        node.body = [self.visit(s) for s in body] or [ast.Pass()]
        node.type_comment = None
        return node

    def visit_arguments(self, node):
        node = copy.deepcopy(node)
        for a in node.posonlyargs + node.args + node.kwonlyargs + ([node.vararg] if node.vararg else []) + ([node.kwarg] if node.kwarg else []):
            a.annotation = None
            a.type_comment = None
        node.defaults = [self.visit(d) for d in node.defaults]
        node.kw_defaults = [self.visit(d) if d is not None else None for d in node.kw_defaults]
        return node

    def visit_AnnAssign(self, node):
        if node.value is None:
            return ast.Pass()
        return ast.Assign(targets=[self.visit(node.target)], value=self.visit(node.value))

    def visit_AugAssign(self, node):
        tgt_load = copy.deepcopy(node.target)
        for n in ast.walk(tgt_load):
            if hasattr(n, "ctx"):
                n.ctx = ast.Load()
        return ast.Assign(targets=[self.visit(node.target)], value=ast.BinOp(left=self.visit(tgt_load), op=node.op, right=self.visit(node.value)))

    def visit_Expr(self, node):
        if isinstance(node.value, ast.Constant) and node.value.value is Ellipsis:
            return ast.Pass()
        return self.generic_visit(node)

    def visit_Name(self, node):
        if node.id in self.rename:
            return ast.copy_location(ast.Name(id=self.rename[node.id], ctx=node.ctx), node)
        return node

    def visit_Attribute(self, node):
        node = self.generic_visit(node)
        return node


def _simplify_block(body):
    """statement-list rewrites that cannot change behaviour:
    `if c: v = a` / `else: v = b`  ->  `v = a if c else b`
    `v = e` directly followed by `return v`  ->  `return e`"""
    out = []
    for st in body:
        for fld in ("body", "orelse", "finalbody"):
            if hasattr(st, fld) and isinstance(getattr(st, fld), list):
                setattr(st, fld, _simplify_block(getattr(st, fld)))
        if isinstance(st, ast.Try):
            for h in st.handlers:
                h.body = _simplify_block(h.body)
        if isinstance(st, ast.If) and len(st.body) == 1 and len(st.orelse) == 1 and isinstance(st.body[0], ast.Assign) and isinstance(st.orelse[0], ast.Assign):
            a, b = st.body[0], st.orelse[0]
            if len(a.targets) == 1 and len(b.targets) == 1 and isinstance(a.targets[0], ast.Name) and isinstance(b.targets[0], ast.Name) and a.targets[0].id == b.targets[0].id:
                st = ast.Assign(targets=[a.targets[0]], value=ast.IfExp(test=st.test, body=a.value, orelse=b.value))
        if isinstance(st, ast.Return) and isinstance(st.value, ast.Name) and out and isinstance(out[-1], ast.Assign) and len(out[-1].targets) == 1 and isinstance(out[-1].targets[0], ast.Name) and out[-1].targets[0].id == st.value.id:
            prev = out.pop()
            st = ast.Return(value=prev.value)
        out.append(st)
    return out


def _is_shim(dec):
    """decorators that do not change behaviour for current-style calls (deprecation warnings)"""
    txt = ast.unparse(dec)
    return "c3warn." in txt or "deprecated" in txt


def normalise(fn, rename=None):
    out = _Norm(rename).visit(copy.deepcopy(fn))
    out.body = _simplify_block(out.body)
    ast.fix_missing_locations(out)
    return out


def normal_text(fn, rename=None):
    n = normalise(fn, rename)
    n.name = "_"
    return ast.unparse(n)


def same(fn_a, fn_b, rename_b=None):
    return normal_text(fn_a) == normal_text(fn_b, rename_b)


def diff(fn_a, fn_b, rename_b=None, limit=8):
    a = normal_text(fn_a).splitlines()
    b = normal_text(fn_b, rename_b).splitlines()
    out = []
    for line in difflib.unified_diff(a, b, lineterm="", n=0):
        if line.startswith(("---", "+++", "@@")):
            continue
        out.append(line.strip())
    return out[:limit]
