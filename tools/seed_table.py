#!/usr/bin/env python3
"""markdown table of /verif/seeded/*/meta.json for DESIGN.md section 10"""
import glob, json, os
rows = []
for f in sorted(glob.glob("/verif/seeded/*/meta.json")):
    m = json.load(open(f))
    c = m["confirmed_by_me"]
    rows.append(f"| {m['seed']} | {m['property_broken']} | {m['needs_to_manifest']} | {'yes' if c.get('confirmed') else 'NO'} | {m['detected_by'] or '—'} | {m['initially']} | {m.get('note','')} |")
print("| seed | breaks | needs, to manifest | confirmed (demo fails only with the change; suite passes) | detected by | initially | note |\n|---|---|---|---|---|---|---|")
print("\n".join(rows))
