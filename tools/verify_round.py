# verify a batch of seeds: tools/verify_round.py <seed> ...; tries /repo HEAD, else searches the last 60 commits for a base the patch applies to.
# writes seeded/<seed>/verify.json; progress goes to /tmp/verify_round.log (scratch only, nothing reads it)
import subprocess, sys, os, json, datetime
seeds = sys.argv[1:]
commits = subprocess.run(["git","-C","/repo","log","--first-parent","--format=%h","--abbrev=9","-60"],capture_output=True,text=True).stdout.split()
import tempfile, shutil
for s in seeds:
    d=f"/verif/seeded/{s}"
    base=None
    if subprocess.run(["git","-C","/repo","apply","--check",f"{d}/patch.diff"],capture_output=True).returncode!=0:
        wt=tempfile.mkdtemp(prefix="wt_loc_",dir="/tmp"); os.rmdir(wt)
        subprocess.run(["git","-C","/repo","worktree","add","-q","--detach",wt,"HEAD"])
        for c in commits:
            subprocess.run(["git","checkout","-q","--detach",c],cwd=wt)
            if subprocess.run(["git","apply","--check",f"{d}/patch.diff"],cwd=wt,capture_output=True).returncode==0:
                base=c; break
        subprocess.run(["git","-C","/repo","worktree","remove","--force",wt]); shutil.rmtree(wt,ignore_errors=True)
    cmd=["/venv/bin/python","/verif/tools/verify_seed.py",d]+(["--base",base] if base else [])
    out=subprocess.run(cmd,capture_output=True,text=True,cwd="/verif").stdout
    open(f"{d}/verify.json","w").write(out)
    open("/tmp/verify_round.log","a").write(f"{s} done {datetime.datetime.now():%H:%M} base={base}\n")
