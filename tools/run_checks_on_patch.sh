#!/bin/bash
# apply a seeded patch to /repo, run the quick checks, undo it straight afterwards
# usage: run_checks_on_patch.sh <patch.diff> [ids...]
set -u
patch="$1"; shift
ids="${*:-C01 C03 C04 C05 C06 C07 C09 C10 C12 C13 C14 C16 C17 C19 C20}"
cd /verif
if ! git -C /repo diff --quiet; then echo "REPO DIRTY"; exit 3; fi
git -C /repo apply "$patch" || { echo "PATCH DOES NOT APPLY"; exit 3; }
for p in $ids; do
  out=$(/venv/bin/python -m c3static check $p --no-write 2>&1); rc=$?
  if [ $rc -ne 0 ]; then echo "== $p rc=$rc"; echo "$out" | grep -E "violation|ANALYSIS-ERROR" | head -6; fi
done
git -C /repo checkout -- .
git -C /repo status --short | head -3
