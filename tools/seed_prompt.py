#!/usr/bin/env python3
"""prints the prompt given to a fresh sub-agent for one property (only the property's own text)"""
import json, sys
pid = sys.argv[1]
rnd = sys.argv[2] if len(sys.argv) > 2 else ""
wt = f"/tmp/wt{rnd}_{pid}"
for line in open("/verif/properties.jsonl"):
    p = json.loads(line)
    if p["id"] == pid:
        break
else:
    raise SystemExit("unknown property")
print(f"""You are working in a scratch git worktree of the cogent3 Python library at {wt} (a copy of the repository; python is /venv/bin/python). Always run code with the environment variable PYTHONPATH={wt}/src and the working directory {wt}, so that the worktree's code is what gets imported. Never read or write anything under /repo or /verif.

Here is a semantic property of cogent3 that is supposed to hold:

  {p['id']} -- {p['title']}
  {p['statement']}
  (It quantifies over: {p['quantifier']['text']})
  Code it is anchored in: {', '.join(p['anchors']['files'])}

YOUR TASK: produce TWO independent, small changes to the library source under {wt}/src/cogent3 (never to tests/) each of which BREAKS this property while (a) the package still imports and (b) the existing test suite still passes. Each change should be realistic -- something a maintainer could plausibly introduce during a refactor, an optimisation or a bug fix -- and it must need something specific to manifest: an unusual input, a multi-step sequence of operations, a particular object state or history, a failure at a particular point, or two cooperating sites that each look fine on their own. Do not produce a change that ordinary use would expose at once. Prefer the two changes to be of different kinds and in different functions. Look beyond the most central function of the property: every clause of the statement and every file it is anchored in is fair game, and less obvious code paths (option branches, helper functions, sibling classes, error paths) are preferred.

For each change k in (1, 2) deliver, in {wt}/_seed/k/ :
  - patch.diff : `git diff` of the change (apply-able with `git apply` at the repository root). Only the change k, relative to the unchanged tree.
  - demo.py    : a small self-contained program; run as `cd {wt} && PYTHONPATH={wt}/src /venv/bin/python _seed/k/demo.py`. It must exit 0 (printing OK) on the UNCHANGED tree and exit non-zero (failed assert, with a message that shows the wrong behaviour) with change k applied.
  - notes.md   : which clause of the property it breaks, what exactly is needed for it to manifest, and the exact test commands you ran with their outcome.

How to verify (you must actually do this):
  1. demo.py fails with the change and passes without it. Toggle your change ONLY with `git apply _seed/k/patch.diff` and `git apply -R _seed/k/patch.diff` (or `git checkout -- src`); NEVER use `git stash` -- the stash is shared with other people's worktrees of this repository and their changes would get mixed into yours.
  (Note: in this environment `pytest -n 4` given explicit test paths may report "no tests ran": run single test files without -n, and the full suite with -n 4 and no paths.)
  2. the test files for the touched modules pass:  cd {wt} && PYTHONPATH={wt}/src /venv/bin/python -m pytest -q -p no:cacheprovider -x tests/<relevant files>
  3. the full suite once per change:  cd {wt} && PYTHONPATH={wt}/src /venv/bin/python -m pytest -q -p no:cacheprovider -n 4 --timeout=900 2>&1 | tail -15   (several minutes). Seven tests that need the network fail on the unchanged tree as well (test_open_url*, test_open_url_compressed, test_line_based_url, test_get_app_tree_is_url): ignore exactly those. If your change makes any other test fail, pick a different change.
If, while exploring, you find that the UNCHANGED code already violates the property for some input or history, also write {wt}/_seed/found.md with a minimal reproducer for each such case (this is a bonus; the two changes are still required).\nWhen you finish, leave the worktree clean of source changes (git checkout -- src) but keep the _seed directory. Reply with a short summary of the two changes.""")
