#!/venv/bin/python
"""For every kept seed whose patch no longer applies to /repo HEAD and whose verify.json does not name a usable
commit, find the most recent commit of /repo's history to which the patch applies (the later fix: commits that
touched the same lines come after it) and record it as verify.json: written_against.  Uses a scratch worktree."""
import glob, json, os, subprocess, sys, tempfile, shutil

def sh(cmd, cwd=None):
    p = subprocess.run(cmd, cwd=cwd, stdout=subprocess.PIPE, stderr=subprocess.STDOUT, text=True)
    return p.returncode, p.stdout

commits = sh(["git", "-C", "/repo", "log", "--first-parent", "--format=%h", "--abbrev=9"])[1].split()
wt = tempfile.mkdtemp(prefix="wt_locate_", dir="/tmp"); os.rmdir(wt)
assert sh(["git", "-C", "/repo", "worktree", "add", "-q", "--detach", wt, "HEAD"])[0] == 0
try:
    for d in sorted(glob.glob("/verif/seeded/C*-*")):
        patch = f"{d}/patch.diff"
        if sh(["git", "-C", "/repo", "apply", "--check", patch])[0] == 0:
            continue
        vp = f"{d}/verify.json"
        vj = json.load(open(vp)) if os.path.exists(vp) else {}
        cand = vj.get("base") if vj.get("base", "HEAD") != "HEAD" else vj.get("written_against")
        if cand:
            sh(["git", "checkout", "-q", "--detach", cand], cwd=wt)
            if sh(["git", "apply", "--check", patch], cwd=wt)[0] == 0:
                continue
        found = None
        for c in commits:
            sh(["git", "checkout", "-q", "--detach", c], cwd=wt)
            if sh(["git", "apply", "--check", patch], cwd=wt)[0] == 0:
                found = c
                break
        print(os.path.basename(d), "->", found)
        if found and os.path.exists(vp):
            vj["written_against"] = found
            if vj.get("base", "HEAD") != "HEAD":
                vj["base_note"] = f"verified at {vj['base']}; latest commit the patch applies to: {found}"
            json.dump(vj, open(vp, "w"), indent=1)
finally:
    sh(["git", "-C", "/repo", "worktree", "remove", "--force", wt]); shutil.rmtree(wt, ignore_errors=True)
