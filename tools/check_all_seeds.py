#!/venv/bin/python
"""Run every claimed check against every kept seed and record which rules fire.
A seed is applied to /repo's working tree (and reverted straight afterwards) when it still applies to HEAD;
otherwise -- a later fix: commit changed the same lines -- it is applied in a scratch worktree of the commit it
was written against (verify.json: base) and the checks are pointed at that tree with --root.
Writes seeded/<id>/checks.json and prints one line per seed."""
import glob, json, os, re, subprocess, sys, tempfile, shutil

IDS = "C01 C03 C04 C05 C06 C07 C09 C10 C12 C13 C14 C16 C17 C19 C20".split()
# bases the seeds of each campaign were written against, when verify.json does not say
DEFAULT_BASE = "fcd760f12"


def sh(cmd, cwd=None):
    p = subprocess.run(cmd, cwd=cwd, stdout=subprocess.PIPE, stderr=subprocess.STDOUT, text=True)
    return p.returncode, p.stdout


def run_checks(root):
    fired = {}
    for pid in IDS:
        rc, out = sh(["/venv/bin/python", "-m", "c3static", "check", pid, "--no-write", "--root", root], cwd="/verif")
        # violation keys (rule|module::function|construct) are printed on the line after each violation
        # a violation prints its location/detail line, then its key (rule|module::function|construct); line numbers are
        # dropped so that a shifted but otherwise identical violation is not counted as new
        pairs = re.findall(r"^  violation \S+ at [^:]+:\d+(?: / [^:]+:\d+)?: (.*)\n    key: (R[\d.]+b?\|.*)$", out, flags=re.M)
        rules = sorted({f"{k} :: {re.sub(r'[Ll]ine \d+|L\d+', 'L', dtl)[:160]}" for dtl, k in pairs})
        if rc == 1:
            fired[pid] = rules
        elif rc == 2:
            fired[pid] = ["ANALYSIS-ERROR"]
    return fired


def main():
    only = sys.argv[1:]
    rc, out = sh(["git", "-C", "/repo", "status", "--porcelain"])
    assert not out.strip(), "/repo is dirty"
    bad = 0
    for d in sorted(glob.glob("/verif/seeded/C*-*")):
        name = os.path.basename(d)
        if only and name not in only:
            continue
        patch = f"{d}/patch.diff"
        prop = name.split("-")[0]
        rc, _ = sh(["git", "-C", "/repo", "apply", "--check", patch])
        where = "HEAD"
        vbase = "HEAD"
        try:
            vbase = json.load(open(f"{d}/verify.json")).get("base", "HEAD")
        except Exception:
            pass
        if rc == 0 and vbase == "HEAD":
            sh(["git", "-C", "/repo", "apply", patch])
            try:
                fired = run_checks("/repo")
            finally:
                sh(["git", "-C", "/repo", "checkout", "--", "."])
        else:
            base = DEFAULT_BASE
            try:
                vj = json.load(open(f"{d}/verify.json"))
                base = vj.get("base", base)
                if base == "HEAD":
                    # verified at the HEAD of its day; the commit it was written against is recorded separately
                    base = vj.get("written_against", DEFAULT_BASE)
            except Exception:
                pass
            if base == "HEAD":
                base = DEFAULT_BASE
            wt = tempfile.mkdtemp(prefix="wt_seedchk_", dir="/tmp")
            os.rmdir(wt)
            where = base
            try:
                rc, o = sh(["git", "-C", "/repo", "worktree", "add", "-q", "--detach", wt, base])
                assert rc == 0, o
                before = run_checks(wt)
                rc, o = sh(["git", "apply", patch], cwd=wt)
                assert rc == 0, f"{name}: patch applies neither to HEAD nor to {base}: {o}"
                after = run_checks(wt)
                # only what the patch adds (the base tree predates later fix: commits and has their defects)
                fired = {}
                for pid, rules in after.items():
                    new = [r for r in rules if r not in before.get(pid, [])]
                    if new:
                        fired[pid] = new
            finally:
                sh(["git", "-C", "/repo", "worktree", "remove", "--force", wt])
                shutil.rmtree(wt, ignore_errors=True)
        json.dump({"seed": name, "applied_to": where, "fired": fired}, open(f"{d}/checks.json", "w"), indent=1)
        own = prop in fired and fired[prop] != ["ANALYSIS-ERROR"]
        short = {pid: sorted({k.split("|")[0] for k in ks}) for pid, ks in fired.items()}
        print(f"{name:7s} on {where:10s} own={'yes' if own else 'NO '} fired={short}")
        if not own:
            bad += 1
    return 1 if bad else 0


sys.exit(main())
