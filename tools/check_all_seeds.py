#!/venv/bin/python
"""Run every claimed check against every kept seed and record which rules fire.
Each seed is applied in a scratch git worktree of /repo (never /repo's own working tree): at HEAD when the patch
still applies there, otherwise -- a later fix: commit changed the same lines or removed the precondition -- at the
commit it was written against (verify.json: base / written_against).  The checks are pointed at that tree with
--root and run before and after `git apply`; only the violations the patch adds count (a base tree predates later
fix: commits and still has their defects).
Seeds are processed in parallel.  Writes seeded/<id>/checks.json and prints one line per seed.
usage: check_all_seeds.py [-j N] [seed ids...]"""
import glob, json, os, re, subprocess, sys, tempfile, shutil, threading
from concurrent.futures import ThreadPoolExecutor

IDS = "C01 C02 C03 C04 C05 C06 C07 C09 C10 C11 C12 C13 C14 C15 C16 C17 C19 C20".split()
# base the round-1 seeds were written against, when verify.json does not say
DEFAULT_BASE = "fcd760f12"


def sh(cmd, cwd=None):
    p = subprocess.run(cmd, cwd=cwd, stdout=subprocess.PIPE, stderr=subprocess.STDOUT, text=True)
    return p.returncode, p.stdout


def run_checks(root, ids=IDS):
    fired = {}
    for pid in ids:
        rc, out = sh(["/venv/bin/python", "-m", "c3static", "check", pid, "--no-write", "--root", root], cwd="/verif")
        # a violation prints its location/detail line, then its key (rule|module::function|construct); line numbers are
        # dropped so that a shifted but otherwise identical violation is not counted as new
        pairs = re.findall(r"^  violation \S+ at [^:]+:\d+(?: / [^:]+:\d+)?: (.*)\n    key: (R[\d.]+b?\|.*)$", out, flags=re.M)
        rules = sorted({f"{k} :: {re.sub(r'[Ll]ine \d+|L\d+', 'L', dtl)[:160]}" for dtl, k in pairs})
        if rc == 1:
            fired[pid] = rules
        elif rc == 2:
            fired[pid] = ["ANALYSIS-ERROR"]
    return fired


_before_cache = {}
_lock = threading.Lock()
_git = threading.Lock()


def one(d):
    name = os.path.basename(d)
    patch = f"{d}/patch.diff"
    prop = name.split("-")[0]
    vj = {}
    try:
        vj = json.load(open(f"{d}/verify.json"))
    except Exception:
        pass
    vbase = vj.get("base", "HEAD")
    rc, _ = sh(["git", "-C", "/repo", "apply", "--check", patch])
    if rc == 0 and vbase == "HEAD":
        base, where = "HEAD", "HEAD"
    else:
        base = vbase if vbase != "HEAD" else vj.get("written_against", DEFAULT_BASE)
        where = base
    wt = tempfile.mkdtemp(prefix="wt_seedchk_", dir="/tmp")
    os.rmdir(wt)
    try:
        with _git:
            rc, o = sh(["git", "-C", "/repo", "worktree", "add", "-q", "--detach", wt, base])
        assert rc == 0, o
        commit = sh(["git", "-C", wt, "rev-parse", "HEAD"])[1].strip()
        with _lock:
            have = commit in _before_cache
        if not have:
            b = run_checks(wt)
            with _lock:
                _before_cache.setdefault(commit, b)
        before = _before_cache[commit]
        rc, o = sh(["git", "apply", patch], cwd=wt)
        assert rc == 0, f"{name}: patch does not apply to {base}: {o}"
        after = run_checks(wt)
        fired = {}
        for pid, rules in after.items():
            new = [r for r in rules if r not in before.get(pid, [])]
            if new:
                fired[pid] = new
    finally:
        with _git:
            sh(["git", "-C", "/repo", "worktree", "remove", "--force", wt])
        shutil.rmtree(wt, ignore_errors=True)
    json.dump({"seed": name, "applied_to": where, "fired": fired}, open(f"{d}/checks.json", "w"), indent=1)
    own = prop in fired and fired[prop] != ["ANALYSIS-ERROR"]
    short = {pid: sorted({k.split("|")[0] for k in ks}) for pid, ks in fired.items()}
    return name, where, own, short


def main():
    args = sys.argv[1:]
    jobs = 6
    if args and args[0] == "-j":
        jobs = int(args[1])
        args = args[2:]
    dirs = [d for d in sorted(glob.glob("/verif/seeded/C*-*")) if not args or os.path.basename(d) in args]
    bad = 0
    with ThreadPoolExecutor(max_workers=jobs) as ex:
        for name, where, own, short in ex.map(one, dirs):
            print(f"{name:7s} on {where:10s} own={'yes' if own else 'NO '} fired={short}", flush=True)
            if not own:
                bad += 1
    print(f"{len(dirs)} seeds, {bad} not reported under their own property")
    return 1 if bad else 0


sys.exit(main())
