#!/venv/bin/python
"""Confirm a seeded change myself, in a scratch worktree (never in /repo):
  demo passes on the unchanged tree, fails with the patch, and the pinned suite still passes.
usage: verify_seed.py <dir with patch.diff and demo.py> [--no-suite] [--base <commit>]
(--base: the /repo commit the change was written against, when a later fix: commit removed its precondition)
prints a JSON summary."""
import json, os, subprocess, sys, tempfile, shutil, xml.etree.ElementTree as ET

def sh(cmd, cwd=None, env=None, timeout=3600):
    p = subprocess.run(cmd, cwd=cwd, env=env, shell=isinstance(cmd, str), stdout=subprocess.PIPE, stderr=subprocess.STDOUT, text=True, timeout=timeout)
    return p.returncode, p.stdout

def main():
    d = os.path.abspath(sys.argv[1])
    suite = "--no-suite" not in sys.argv
    base = sys.argv[sys.argv.index("--base") + 1] if "--base" in sys.argv else "HEAD"
    wt = tempfile.mkdtemp(prefix="wt_verify_", dir="/tmp")
    os.rmdir(wt)
    out = {"seed": d, "base": base}
    try:
        rc, o = sh(["git", "-C", "/repo", "worktree", "add", "-q", "--detach", wt, base])
        assert rc == 0, o
        out["written_against"] = sh(["git", "-C", wt, "rev-parse", "--short=9", "HEAD"])[1].strip()
        env = dict(os.environ, PYTHONPATH=f"{wt}/src")
        demo = os.path.join(d, "demo.py")
        rc0, o0 = sh(["/venv/bin/python", demo], cwd=wt, env=env, timeout=900)
        out["demo_unchanged_rc"] = rc0
        rc, o = sh(["git", "apply", os.path.join(d, "patch.diff")], cwd=wt)
        out["patch_applies"] = rc == 0
        if rc != 0:
            out["apply_output"] = o[-500:]
            return out
        rc1, o1 = sh(["/venv/bin/python", demo], cwd=wt, env=env, timeout=900)
        out["demo_patched_rc"] = rc1
        out["demo_patched_tail"] = o1[-400:]
        rc, o = sh(["/venv/bin/python", "-c", "import cogent3"], cwd=wt, env=env)
        out["imports"] = rc == 0
        if suite:
            junit = os.path.join(wt, "junit.xml")
            rc, o = sh(["/venv/bin/python", "-m", "pytest", "-q", "-p", "no:cacheprovider", "--timeout=900", "--continue-on-collection-errors", "-n", "8", f"--junitxml={junit}"], cwd=wt, env=env, timeout=7200)
            stable = set(json.load(open("/root/.vp/BASELINE.json"))["stable_pass"])
            passed = set()
            for tc in ET.parse(junit).getroot().iter("testcase"):
                if not any(c.tag in ("failure", "error", "skipped") for c in tc):
                    # parametrised ids embed absolute paths of the checkout
                    passed.add(f"{tc.get('classname')}::{tc.get('name')}".replace(wt + "/", "/repo/"))
            missing = sorted(stable - passed)
            out["suite_missing_from_stable"] = len(missing)
            out["suite_missing"] = missing[:10]
            out["suite_tail"] = o[-300:]
        out["confirmed"] = rc0 == 0 and rc1 != 0 and out["imports"] and (not suite or out["suite_missing_from_stable"] == 0)
        return out
    finally:
        sh(["git", "-C", "/repo", "worktree", "remove", "--force", wt])
        shutil.rmtree(wt, ignore_errors=True)

if __name__ == "__main__":
    print(json.dumps(main(), indent=1))
