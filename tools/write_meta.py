#!/usr/bin/env python3
"""write /verif/seeded/<name>/meta.json from verify.json + arguments
usage: write_meta.py <name> <property> <detected_by or NONE> <initially: caught|missed-then-strengthened|missed> "<needs>" ["<note>"]"""
import json, os, sys
name, prop, det, initially, needs = sys.argv[1:6]
note = sys.argv[6] if len(sys.argv) > 6 else ""
d = f"/verif/seeded/{name}"
v = json.load(open(f"{d}/verify.json")) if os.path.exists(f"{d}/verify.json") else {}
meta = {
    "seed": name,
    "property_broken": prop,
    "needs_to_manifest": needs,
    "author": "independent sub-agent given only the property text and its own scratch worktree",
    "confirmed_by_me": {
        "how": "tools/verify_seed.py in a fresh scratch worktree of /repo HEAD: demo.py on the unchanged tree, git apply patch.diff, demo.py again, then the pinned suite (pytest -n 8) compared with BASELINE.json stable_pass",
        "base": v.get("base", "HEAD"),
        "demo_unchanged_rc": v.get("demo_unchanged_rc"),
        "demo_patched_rc": v.get("demo_patched_rc"),
        "suite_missing_from_stable": v.get("suite_missing_from_stable"),
        "confirmed": v.get("confirmed"),
    },
    "checks_run": "tools/run_checks_on_patch.sh patch.diff (git -C /repo apply; quick checks; git -C /repo checkout -- .)",
    "detected_by": None if det == "NONE" else det,
    "initially": initially,
    "note": note,
}
json.dump(meta, open(f"{d}/meta.json", "w"), indent=1)
print(json.dumps(meta["confirmed_by_me"]))
