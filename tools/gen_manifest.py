#!/usr/bin/env python3
"""Regenerates /verif/MANIFEST.json from the tables below (kept as code so that the
claimed set, the not-applicable list and the per-property wording stay in one place)."""
import json, os, sys

HERE = os.path.dirname(os.path.dirname(os.path.abspath(__file__)))

# property -> (technique, level text, level note)   -- only properties with a rule module are emitted
CLAIMED = {
 "C12": ("literal-table extraction and comparison (twin tables, codon-keyed NCBI oracle, complement closure), truth-table comparison of extracted option guards, keyword pass-through parity",
         "Static: decides the data clauses exhaustively (27 code tables x 2 modules against each other and the NCBI table; 4 complement tables closed; codon order TCAG) and, for the option clauses, that every translation entry point reads its options, that sibling entry points trim terminal stops under the same condition on the full truth table, that collection wrappers forward the options and give the requested genetic code to every entry point they call, that every complement implementation goes through the complement table, that index arrays are typed by the alphabet size, that no translation entry point reads the raw (uncomplemented) view, that no cache of the moltype / code / alphabet classes is a shared class attribute, that the new translate() chooses its start/truncation slices by strand (known finding), and that the byte converter fixes the element width of index arrays. The byte/str translation code itself is not decided.",
         "Trusts python ast, the constant folder, the embedded NCBI deviations table and that k-mer alphabets enumerate the product of monomers in order."),
 "C17": ("constant propagation through the WHERE builder + exhaustive enumeration of order types; SQL column-set agreement; constant-offset domain along def-use chains",
         "Static: the interval predicate text the code assembles is extracted by constant propagation, parsed, and compared with half-open overlap / containment on every weak ordering of the integers involved (exhaustive), for every kind of accompanying condition (also decides that the assembled WHERE is well formed); every SQL builder takes its WHERE from that one function with the flags forwarded; attribute conditions use the exact = operator; spans are never written without start/stop; GFF and GenBank coordinates reach the store with net offsets (-1, 0); the counter of made-up record names is threaded through the chunked GFF reader and across files; identifiers already stored leave a block before it is added; the GFF ID/Parent patterns are anchored and case-sensitive; the table loop does not edit its forwarded conditions in place; raw-connection inserts are committed; union() is not built on the receiver's connection; from_dict builds the receiving db empty of the serialised source; all GenBank records of a file are loaded; the per-table loops of the aggregate methods visit every table. Equality with a linear scan over arbitrary record sets, and union/copy/pickle multiset preservation, are not decided.",
         "Trusts python ast, the mini constant propagator (anything it cannot fold is reported unresolved), SQLite integer comparison semantics; features and windows are assumed non-empty."),
 "C19": ("typestate over the extracted file-system effect sequence of the commit function; post-dominance with exceptional edges on a statement CFG; who-may-open rule; dominance of the resume skip",
         "Static: every kill point of atomic_write's commit is a prefix of its extracted effect sequence, and after each prefix the destination is old or new (never absent); no writer's exception handler deletes the destination; every atomic_write is released on all paths including exceptional ones, and __exit__ commits only on success and cleans up on failure; writers never open the destination directly; the commit is a rename/replace (shutil.move and copies are not atomic); the temporary directory is removed on every exceptional path out of the close and the commit too; apply_to's skip of completed inputs dominates scheduling and rests on an exact store-membership test and on an overwrite check made on the caller's identifier. Not decided: behaviour of the OS, the zip commit, that a resumed run ends with an identical store.",
         "Trusts python ast, the CFG construction (exception edge from every statement containing a call), POSIX atomic rename/replace."),
 "C13": ("dominance of a mode check over every file-system mutation on a statement CFG with self-calls inlined; identifier taint (def-use) against exact/anchored matching idioms; SQL sibling column agreement",
         "Static: every file-system mutation reachable from a public DataStoreDirectory method is dominated by a READONLY check (the SQLite store by its typed read-only handle); identifiers are only matched exactly or by anchored forms; a completed write retires the not-completed record of the same identifier on every path; the UPDATE and INSERT (or upsert) branches persist the same columns; _check_writable refuses READONLY writes and APPEND overwrites and precedes every storage write; an accepted write always reaches the storage; no helper unlinks in a table after another wrote there in the same operation; both SQLite member lists are adjusted by each write; helpers testing a mode parameter receive the normalised Mode; the store suffix is matched with its dot; an override of __contains__ asks the base class one question; writes append to the lazy member lists only after those were loaded; the checksum file's path covers the data path's parameters (known finding). Equality with a dictionary model over arbitrary histories is not decided.",
         "Trusts python ast, CFG/dominators, the resolver for self./super() calls (depth 3), sqlite mode=ro."),
 "C14": ("def-use of the result/source association, structural one-submit/one-yield rule, dominance and try-containment on a statement CFG, sibling writer routing",
         "Static: schedules are decided structurally by showing the result<->source association never depends on order (the proxy object itself is returned and the identifier is derived from the completed value; no positional pairing), one submission per input and one yield per future, a cardinality-preserving input pipeline, failures converted to records on every path of _call, every writer routing NotCompleted by kind (isinstance, not truthiness) under the same identifier, function-apps handing their constructor arguments on as deep copies, the writer call of apply_to being guarded (known finding), and the store membership behind the writers' overwrite check being exact. Content equality with a solo call and behaviour of the executors are not decided.",
         "Trusts python ast, CFG/dominators, concurrent.futures semantics (each future yielded once)."),
 "C16": ("reaching definitions and post-dominance (with exceptional edges) on a statement CFG; wrapper-chain order; positional flow of the bounds pair",
         "Static: what maximise returns is, on every path, the best point recorded by the tracker (get_best() runs in a finally, tuple positions agree), the tracker is the innermost wrapper and sees the start point and every optimiser evaluation, it updates only on improvement with a copy; bounds travel in (lower, upper) order from get_bounds_vectors to the in-bounds test and the bounds wrapper sits outside the tracker; the controller writes the calculator state of every leaf definition back in a finally; nested-model initialisation reads the projected value from the key the projection writes and the app-level initialiser selects the nested function by identifier. Exactness of the projection itself and the optimisers' internals are not decided.",
         "Trusts python ast, CFG/reaching definitions, determinism of the objective."),
 "C07": ("package-wide who-may-call over typed receivers, post-dominance of the notification on a statement CFG, finally-protection of context-manager generators, def-use sets of the undo bookkeeping",
         "Static: definition-level mutators are called only by their owner, which notifies with the changed definition on every normal path; the propagation sweep marks clients, clears the dirty set only after the sweep and never while suspended; the dirty set is accumulated, never replaced; every state-setting context manager restores in a finally and runs its deferred work there; the calculator's undo bookkeeping is restored on the interruption path and its undo shortcut is taken only when all changes of the last step are reverted; no except-as name is read after its handler; leaf definitions answer from their primary state, not from what the deferred sweep derives. Equality of the incremental value with a fresh calculation over all histories is not decided.",
         "Trusts python ast, CFG, the receiver typing by origin (loop variables over self.defns are definitions; names pc/lf/self are controllers)."),
 "C05": ("def-use template matching on the rate-matrix construction, C3 linearisation of the model class hierarchy, literal option table, CFG path cover",
         "Static: every calcQ in the hierarchy fixes the diagonal to minus the row sums taken after all element-wise scaling and calibrates last by 1/(word_probs*row_totals).sum(); all 13 classes that declare stationarity resolve calcQ (by C3 MRO) to the implementation that scales by the motif probabilities and the 8 general ones do not; TimeReversible refuses asymmetric exchangeabilities on every path; rate-class multipliers are divided by their weighted mean; the exponentiator option table is exhaustive and exponentiators keep no state between calls; GeneralStationary uses its solved balance rate unaltered and refuses a negative one. Row-stochasticity, P(s+t)=P(s)P(t) and back-end agreement are numerical and not decided.",
         "Trusts python ast, the C3 implementation, that calc_exchangeability_matrix yields non-negative off-diagonals with zero diagonal."),
 "C06": ("writer/reader literal-table and constant agreement, idiom match for record boundaries and label derivation across sibling parsers",
         "Static: what a one-sided edit breaks is decided -- every writable format name has a parser and aliases agree, recognised and openable compression suffixes coincide, the PHYLIP name-field width/truncation equals the parser's offset, GDE/FASTA sigils and PAML/PHYLIP headers agree with their parsers, record boundaries are line-anchored in all three FASTA parsers and they derive labels and strip whitespace alike; block-wrapping writers bound their loop by the string they wrap; the chunked line streamer carries incomplete tails; the block-format parsers never derive a label from a white-space-squeezed line (backward slice); the GenBank bytes parser trims every record piece; no writer helper takes a last block by s[-tail:] with a possibly-zero tail; open_ honours an explicit encoding and does not guess the encoding of ASCII data. parse(write(x)) == x for all x is not decided.",
         "Trusts python ast and the enumerated accepted idioms (line[0] in label_char, startswith, split on newline+sigil, anchored regex)."),
 "C10": ("class-hierarchy closure against the literal/provenance keys of the deserialiser registry (substring dispatch in registration order), writer/reader key-set agreement with delegation followed, lost-effect scan of deserialisers",
         "Static: every class derived from a dispatched class that writes its own provenance is itself dispatched, ambiguous matches resolve to the most specific key first, keys are unique; the keys each deserialiser requires are written by the matching to_rich_dict and keys left for **data fit the constructor; no deserialiser rebuilds an object after applying setters; pickle state pairs agree; a view exports the segment it displays (index-space typing, R01.4) the tree JSON writer/reader conventions match (R09.4) and history-state parameters are written by to_rich_dict. Observational equality of the round trip is not decided.",
         "Trusts python ast, the resolver, import order (deserialise.py registers first), the NOT_SERIALISABLE exemption table (each with its reason)."),
 "C01": ("ownership/taint of the raw view over MRO-resolved methods (def-use), qualifier typing of index spaces inside the view classes, normalised-AST twin diff of the two slice-algebra implementations",
         "Static: no method of a concrete sequence class reads the raw (reversed, uncomplemented) view without the is_reversed-guarded complement and the realisation owners keep that guard; local vs absolute (offset-including) indices are typed and only local indices subscript the view's own string; a view over a realised string receives the receiver's coordinates only under a strand test; the str/bytes/array accessors of a view realise the same slice; the 18 slice-algebra twins and 31 read-only method twins of the old and new implementation are identical after normalisation. The view arithmetic itself (all chains of slices) is integer arithmetic and not decided.",
         "Trusts python ast, the MRO resolver, the raw/safe member tables of the view classes; twin rule: a one-sided semantics-preserving rewrite that survives the normaliser would be reported."),
 "C04": ("normalised-AST twin diff, parameter-to-sink flow of the query window, callee-precondition check at constructor call sites with per-view-class summaries, offset-expression rule",
         "Static: the translation methods present in both implementations are identical; get_features forwards its flags unchanged and converts/swaps the window ends as the database predicate (decided under C17) expects; no constructor call passes a coordinate-carrying view together with a non-zero annotation_offset, and offsets of sequences rebuilt from strings include the receiver's own offset; make_feature classifies and clips every span against [0, len) correctly on all 18 weak orderings of (start, end, 0, len) (symbolic evaluation of the loop body); the database predicate and the stored extremes (R17.1, R17.3) are re-checked here; a windowed db subset asks for partial matches; a sequence that receives the receiver's annotation db was built with the receiver's coordinates (10 known findings); a copy keeps its annotations whatever the strand; stores to properties have setters. That a feature denotes the same residues after any history is not decided.",
         "Trusts python ast, the summaries of SeqView/SeqDataView.copy, that slices of self._seq keep their coordinates."),
 "C09": ("region/effect abstract interpretation (receiver purity and result sharing) with interprocedural summaries to a two-phase least fix-point over the tree class family; regex character-class comparison of the Newick writer and tokeniser",
         "Static: none of 36 operations documented as returning a new tree or a value (resolved for TreeNode and PhyloNode) contains a store, container mutation, property-setter effect or child adoption whose target lies exactly in the receiver's region, through calls resolved inside the class; the new trees hold no mutable dict/list/node of the receiver; every character the Newick tokeniser treats as structure makes the writer quote the name, quotes are doubled/un-doubled and blank/underscore munging is symmetric, also between the JSON writer and reader; generated node names are re-checked for uniqueness; unrooted() re-attaches the removed edge length on the kept side and leaves promoted nodes' lengths alone; no node is re-found by its own name; the midpoint climb is bounded by an ancestor test; subsets() recomputes its clade sets; the tokeniser un-munges underscores in unquoted labels only. Topology and path-length invariance in general are not decided.",
         "Trusts python ast, the effect model of containers/numpy, the tree-specific effect facts (adoption by constructors, parent setter derived from source), under-approximate through unresolved calls and mixed regions."),
 "C03": ("region/effect abstract interpretation (receiver purity) over the alignment class family, MRO-table signature parity of the sibling classes, constructor-call completeness for history state, paired-component dependency rule",
         "Static: none of ~55 listed operations (resolved for ArrayAlignment, Alignment, SequenceCollection, and for Aligned) mutates its receiver; the two alignment classes take the same parameters with the same defaults for every shared public operation; every functional rebuild of SeqsData / IndelMap carries its history state; an Aligned's map and data are always recomputed together; rows of two collections are never paired by position; sibling classes use the same gap vocabulary; both branches of an option give a callee the same kind of value; IndelMap slicing clamps the stop to its length before any arithmetic; map addition merges the seam run; integer indexing is right for -1; the index dispatch of Alignment.__getitem__ is exhaustive; the filtered() predicate is used by truth value; the construction helpers never modify the rows they are handed. That rows equal the string model is not decided.",
         "Trusts python ast, the numpy/container effect model, the allow-list (_named_seqs memo, _repr_policy), the curated history-state table."),
 "C20": ("dialect-table comparison of delimited writers against the csv reader, region/effect abstract interpretation (receiver purity) of the table operations, MRO resolution of self-calls on write paths",
         "Static: the csv-module writer and the hand-rolled delimited writer both produce what csv.reader(dialect='excel') reads back (quoting set, quote doubling, header treated like rows, same suffix->separator table on both sides); none of 28 listed table operations mutates its receiver; every self.<name>() call on the write paths exists in the class; the delimited reader keeps every record and load_table drops rows only on request; equality-based operations apply no ordering primitive to cell data; derived attributes of Columns are re-stored whenever their sources change; file text is never evaluated; predicates are used by truth value, sorting is stable and descending order is by order inversion; natural-join keys come from one ordering; the cross join does not unpack a possibly empty zip. Relational semantics (sort/join/filter results) are not decided.",
         "Trusts python ast, the csv 'excel' dialect, the container effect model, allow-list: _repr_policy and the lazy index_name initialisation."),
}

NOT_APPLICABLE = {
 "C02": "numerical identity (Felsenstein sum-product over continuous parameters, numba kernels): no clause is visible in the shape of the code; static analysis cannot bound it",
 "C08": "searchsorted/cumulative-sum arithmetic on runtime arrays; no sibling implementation to cross-check and the arrays are write-protected at run time, so purity adds nothing; the two structural facts about IndelMap that are in reach (slice stop clamped, history flag carried) are decided under C03 (R03.8, R03.3), which is not enough to claim this property",
 "C11": "relations between two numerical likelihood evaluations; the one structural ingredient (reversibility by construction) is covered under C05 (R05.2)",
 "C15": "closed-form numerics and consistency theorems over all trees/matrices; nothing structural to decide",
 "C18": "optimality of a maximum over exponentially many paths computed by numba DP kernels; not decidable from code shape",
}

PENDING = {}  # filled below: claimed in DESIGN.md but rule module not built yet

ALL = [f"C{i:02d}" for i in range(1, 21)]

def main():
    checks = []
    for pid in ALL:
        if pid in CLAIMED and os.path.exists(os.path.join(HERE, "c3static", "rules", pid.lower() + ".py")):
            tech, text, note = CLAIMED[pid]
            checks.append({
                "property_id": pid,
                "quick_cmd": f"/venv/bin/python -m c3static check {pid} --tier quick",
                "thorough_cmd": f"/venv/bin/python -m c3static check {pid} --tier thorough",
                "evidence_file": f"/verif/evidence/{pid}.json",
                "replay_cmd_template": "/venv/bin/python -m c3static replay {path}",
                "engine": "c3static",
                "level_claimed": {"category": "other", "text": text, "design_ref": f"DESIGN.md section 3, {pid}"},
                "level_note": note,
                "technique": "static analysis: " + tech,
            })
    na = [{"property_id": p, "reason": r} for p, r in NOT_APPLICABLE.items()]
    for pid in ALL:
        if pid not in NOT_APPLICABLE and not any(c["property_id"] == pid for c in checks):
            na.append({"property_id": pid, "reason": "static rule set designed (DESIGN.md section 3) but its checker is not built yet; not claimed until it is"})
    man = {
        "version": 1,
        "setup_cmd": "/venv/bin/python -m compileall -q /verif/c3static",
        "hooks": {
            "guard": "COGENT3_VERIF",
            "enable": "none needed: the checkers read /repo's source and never import or run it; no instrumentation exists in /repo",
            "baseline_off_cmd": "cd /repo && /venv/bin/python -m pytest -ra -q -p no:cacheprovider --timeout=900 --continue-on-collection-errors",
            "source_commits": [],
            "add_only": True,
        },
        "engines": [{
            "name": "c3static",
            "path": "/verif/c3static",
            "serves_properties": [c["property_id"] for c in checks],
            "kind_free_text": "repository-specific static analysis on python ast: module/class index with C3 MRO, literal-table folding, statement CFG with exception edges and dominators, def-use, region/effect (receiver purity) abstract interpretation, twin diff, finite decision tables",
        }],
        "checks": checks,
        "notes": "All checks are static (no cogent3 import, no execution). Exit 0 held / 1 violation / 2 analysis error (vanished anchor, instance floor). Known findings: /verif/known_findings.json. thorough = quick rules + package-wide cross-reference sweeps + the both-ways self-test (one-edit variants in a scratch overlay).",
        "not_applicable": sorted(na, key=lambda d: d["property_id"]),
    }
    with open(os.path.join(HERE, "MANIFEST.json"), "w") as f:
        json.dump(man, f, indent=1)
    print("claimed:", [c["property_id"] for c in checks])

main()
