#!/venv/bin/python
"""Run cogent3's pinned test suite (xdist, 16 workers) and compare the passing set with
BASELINE.json's stable_pass.  Used to validate hook/fix commits; not a property check."""
import json, subprocess, sys, tempfile, os, xml.etree.ElementTree as ET

def main():
    base = json.load(open("/root/.vp/BASELINE.json"))
    stable = set(base["stable_pass"])
    out = tempfile.mktemp(suffix=".junit.xml", dir="/tmp")
    cmd = ["/venv/bin/python", "-m", "pytest", "-q", "-p", "no:cacheprovider", "--timeout=900",
           "--continue-on-collection-errors", "-n", "16", f"--junitxml={out}"] + sys.argv[1:]
    p = subprocess.run(cmd, cwd="/repo", stdout=subprocess.PIPE, stderr=subprocess.STDOUT, text=True)
    print(p.stdout[-1500:])
    passed = set()
    for tc in ET.parse(out).getroot().iter("testcase"):
        if not any(c.tag in ("failure", "error", "skipped") for c in tc):
            passed.add(f"{tc.get('classname')}::{tc.get('name')}")
    os.unlink(out)
    missing = sorted(stable - passed)
    print(f"stable_pass={len(stable)} passed_now={len(passed)} missing_from_stable={len(missing)}")
    for m in missing[:40]:
        print("  MISSING", m)
    return 1 if missing else 0

sys.exit(main())
