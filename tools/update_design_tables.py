#!/venv/bin/python
"""regenerate the generated tables of DESIGN.md (between <!-- X:begin --> / <!-- X:end --> markers):
findings-table from known_findings.json, seed-table from seeded/*/meta.json"""
import glob, json, re

D = "/verif/DESIGN.md"


def findings():
    d = json.load(open("/verif/known_findings.json"))["findings"]
    rows = ["| property | rule | status | construct | observed on the real library |", "|---|---|---|---|---|"]
    for f in sorted(d, key=lambda f: (f["property"], f["rule"], f["status"], f["key"])):
        rule, mod, construct = (f["key"].split("|") + ["", ""])[:3]
        what = re.sub(r"^fixed: property=\S+ (?:[0-9a-f]{7,12} )?", "", f["what"]).replace("|", "¦").replace("\n", " ")
        st = f"fixed `{f.get('commit', '')}`" if f["status"] == "fixed" else "known"
        rows.append(f"| {f['property']} | {f['rule']} | {st} | `{mod} ¦ {construct}` | {what} |")
    return "\n".join(rows)


def seeds():
    rows = ["| seed | breaks | needs, to manifest | confirmed by me | detected by | initially | note |", "|---|---|---|---|---|---|---|"]
    for f in sorted(glob.glob("/verif/seeded/*/meta.json")):
        m = json.load(open(f))
        c = m["confirmed_by_me"]
        conf = "yes" if c.get("confirmed") else "NO"
        if c.get("base", "HEAD") != "HEAD":
            conf += f" (at `{c['base']}`)"
        rows.append(f"| {m['seed']} | {m['property_broken']} | {m['needs_to_manifest']} | {conf} | {m['detected_by'] or '—'} | {m['initially']} | {m.get('note', '')} |")
    return "\n".join(rows)


s = open(D).read()
for name, gen in (("findings-table", findings), ("seed-table", seeds)):
    b, e = f"<!-- {name}:begin -->", f"<!-- {name}:end -->"
    if b in s and e in s:
        i, j = s.index(b) + len(b), s.index(e)
        s = s[:i] + "\n" + gen() + "\n" + s[j:]
    else:
        print("marker missing:", name)
open(D, "w").write(s)
print("ok")
